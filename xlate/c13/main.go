// xlate/c13 — tie A for property C13.
//
// Transcribes facts of /repo/util/list/{Int,Long,Float,Double,String}List.go, AnyList.go and
// /repo/lang/pack/StatGeneralPack.go into Lean data and definitions
// (lean/Golib/Gen/C13.lean).  It never judges: the obligations over these facts are in
// lean/Golib/Props/C13Gen.lean.  A shape it does not recognise is emitted as `unknown …`
// (an undefined identifier), which makes the generated module and hence the obligations fail —
// never silently skipped.
//
// Per list type T:
//   T.nilCap      the statement under `if this.table == nil` in ensure, as a function of minCapacity
//   T.newSize     the computation of newSize in ensure (symbolic execution of the straight-line
//                 statements between `oldSize := len(table)` and the MAX_SIZE test), as a
//                 function of (oldSize, minCapacity)
//   T.maxSize     the constant of the "too big size" test;  T.dcap  the constant of the nil branch
//   T.getPanics / T.setPanics   the guard of get / set as a function of (i, size, len(table))
//   T.addAllBound how AddAll bounds its loop: "hoisted" (a local read before the loop) or
//                 "reread" (other.size in the loop condition)
//   T.wire        [count writer, element writer, count reader, element reader]
//   T.typeCode    value returned by GetType
// Once:
//   compareChild  the branches of CompareChild: (type constants tested | "default", compare fn, getter)
//   create        StatGeneralPack.create: (type code, constructor), code 0 = default arm
// Identifiers are normalised (receiver → this, parameters by position) so that a rename is not a change.
package main

import (
	"flag"
	"fmt"
	"go/ast"
	"go/parser"
	"go/token"
	"os"
	"path/filepath"
	"strconv"
	"strings"
)

var fset = token.NewFileSet()

func parse(path string) *ast.File {
	f, err := parser.ParseFile(fset, path, nil, 0)
	if err != nil {
		fmt.Fprintln(os.Stderr, err)
		os.Exit(1)
	}
	return f
}

var unknownN = 0

func unknown(why string) string {
	unknownN++
	return "(unknown_shape_" + strconv.Itoa(unknownN) + " /- " + strings.ReplaceAll(why, "-/", "- /") + " -/)"
}

// ---------------------------------------------------------------- constants

func constsOf(f *ast.File, into map[string]int64) {
	for _, d := range f.Decls {
		gd, ok := d.(*ast.GenDecl)
		if !ok || gd.Tok != token.CONST {
			continue
		}
		for _, s := range gd.Specs {
			vs := s.(*ast.ValueSpec)
			for i, n := range vs.Names {
				if i < len(vs.Values) {
					if v, ok := evalInt(vs.Values[i], into); ok {
						into[n.Name] = v
					}
				}
			}
		}
	}
}

func evalInt(e ast.Expr, env map[string]int64) (int64, bool) {
	switch x := e.(type) {
	case *ast.BasicLit:
		v, err := strconv.ParseInt(x.Value, 0, 64)
		return v, err == nil
	case *ast.Ident:
		v, ok := env[x.Name]
		return v, ok
	case *ast.ParenExpr:
		return evalInt(x.X, env)
	case *ast.SelectorExpr:
		if id, ok := x.X.(*ast.Ident); ok && id.Name == "math" {
			switch x.Sel.Name {
			case "MaxInt32":
				return 2147483647, true
			case "MaxInt64":
				return 9223372036854775807, true
			case "MaxInt16":
				return 32767, true
			}
		}
	case *ast.BinaryExpr:
		a, ok1 := evalInt(x.X, env)
		b, ok2 := evalInt(x.Y, env)
		if ok1 && ok2 {
			switch x.Op {
			case token.ADD:
				return a + b, true
			case token.SUB:
				return a - b, true
			case token.MUL:
				return a * b, true
			}
		}
	}
	return 0, false
}

// ---------------------------------------------------------------- expressions → Lean (Nat / Int arithmetic)

type scope struct {
	recv   string            // receiver name
	rename map[string]string // Go identifier → Lean identifier
	consts map[string]int64
}

func (sc *scope) expr(e ast.Expr) string {
	switch x := e.(type) {
	case *ast.BasicLit:
		if x.Kind == token.INT {
			return x.Value
		}
	case *ast.Ident:
		if n, ok := sc.rename[x.Name]; ok {
			return n
		}
		if v, ok := sc.consts[x.Name]; ok {
			return strconv.FormatInt(v, 10)
		}
		return unknown("identifier " + x.Name)
	case *ast.ParenExpr:
		return "(" + sc.expr(x.X) + ")"
	case *ast.SelectorExpr:
		if id, ok := x.X.(*ast.Ident); ok {
			if n, ok := sc.rename[id.Name+"."+x.Sel.Name]; ok {
				return n
			}
			if id.Name == sc.recv {
				if n, ok := sc.rename["this."+x.Sel.Name]; ok {
					return n
				}
			}
		}
	case *ast.CallExpr:
		if id, ok := x.Fun.(*ast.Ident); ok && id.Name == "len" && len(x.Args) == 1 {
			if s, ok := x.Args[0].(*ast.SelectorExpr); ok {
				if r, ok := s.X.(*ast.Ident); ok && r.Name == sc.recv {
					if n, ok := sc.rename["len(this."+s.Sel.Name+")"]; ok {
						return n
					}
				}
			}
		}
		// conversions int(x), float64(x), int32(x)
		if id, ok := x.Fun.(*ast.Ident); ok && len(x.Args) == 1 {
			switch id.Name {
			case "int", "int64", "int32", "float64":
				return sc.expr(x.Args[0])
			}
		}
		// math.Min / math.Max
		if s, ok := x.Fun.(*ast.SelectorExpr); ok && len(x.Args) == 2 {
			if id, ok := s.X.(*ast.Ident); ok && id.Name == "math" {
				switch s.Sel.Name {
				case "Min":
					return "(min " + sc.atom(x.Args[0]) + " " + sc.atom(x.Args[1]) + ")"
				case "Max":
					return "(max " + sc.atom(x.Args[0]) + " " + sc.atom(x.Args[1]) + ")"
				}
			}
		}
	case *ast.BinaryExpr:
		a, b := sc.atom(x.X), sc.atom(x.Y)
		switch x.Op {
		case token.ADD:
			return a + " + " + b
		case token.SUB:
			return a + " - " + b
		case token.MUL:
			return a + " * " + b
		case token.QUO:
			return a + " / " + b
		case token.SHR:
			if k, ok := evalInt(x.Y, sc.consts); ok && k >= 0 && k < 62 {
				return a + " / " + strconv.FormatInt(int64(1)<<uint(k), 10)
			}
		case token.SHL:
			if k, ok := evalInt(x.Y, sc.consts); ok && k >= 0 && k < 62 {
				return a + " * " + strconv.FormatInt(int64(1)<<uint(k), 10)
			}
		case token.LSS:
			return a + " < " + b
		case token.LEQ:
			return a + " ≤ " + b
		case token.GTR:
			return a + " > " + b
		case token.GEQ:
			return a + " ≥ " + b
		case token.EQL:
			return a + " = " + b
		case token.NEQ:
			return a + " ≠ " + b
		case token.LAND:
			return a + " ∧ " + b
		case token.LOR:
			return a + " ∨ " + b
		}
	}
	return unknown("expression")
}

func (sc *scope) atom(e ast.Expr) string {
	s := sc.expr(e)
	if strings.ContainsAny(s, " ") && !strings.HasPrefix(s, "(") {
		return "(" + s + ")"
	}
	return s
}

// ---------------------------------------------------------------- per list type

func methods(f *ast.File) (map[string]*ast.FuncDecl, string) {
	m := map[string]*ast.FuncDecl{}
	typ := ""
	for _, d := range f.Decls {
		fd, ok := d.(*ast.FuncDecl)
		if !ok || fd.Body == nil || fd.Recv == nil || len(fd.Recv.List) != 1 {
			continue
		}
		if st, ok := fd.Recv.List[0].Type.(*ast.StarExpr); ok {
			if id, ok := st.X.(*ast.Ident); ok && strings.HasSuffix(id.Name, "List") && !strings.Contains(id.Name, "Sortable") {
				m[fd.Name.Name] = fd
				if fd.Name.Name == "ensure" {
					typ = id.Name
				}
			}
		}
	}
	return m, typ
}

func recvName(fd *ast.FuncDecl) string {
	if len(fd.Recv.List[0].Names) == 1 {
		return fd.Recv.List[0].Names[0].Name
	}
	return "_"
}

func paramNames(fd *ast.FuncDecl) []string {
	var out []string
	for _, p := range fd.Type.Params.List {
		for _, n := range p.Names {
			out = append(out, n.Name)
		}
	}
	return out
}

func isLenTable(e ast.Expr, recv string) bool {
	c, ok := e.(*ast.CallExpr)
	if !ok || len(c.Args) != 1 {
		return false
	}
	if id, ok := c.Fun.(*ast.Ident); !ok || id.Name != "len" {
		return false
	}
	s, ok := c.Args[0].(*ast.SelectorExpr)
	if !ok || s.Sel.Name != "table" {
		return false
	}
	r, ok := s.X.(*ast.Ident)
	return ok && r.Name == recv
}

func hasPanic(b *ast.BlockStmt) bool {
	found := false
	ast.Inspect(b, func(n ast.Node) bool {
		if c, ok := n.(*ast.CallExpr); ok {
			if id, ok := c.Fun.(*ast.Ident); ok && id.Name == "panic" {
				found = true
			}
		}
		return true
	})
	return found
}

// ensureFacts symbolically executes the body of `if minCapacity > len(table) { … }`.
func ensureFacts(fd *ast.FuncDecl, consts map[string]int64) (nilCap, newSize, maxSize, dcap string) {
	nilCap, newSize, maxSize, dcap = unknown("nil branch of ensure"), unknown("newSize of ensure"), unknown("max size test"), unknown("default capacity")
	recv := recvName(fd)
	ps := paramNames(fd)
	if len(ps) != 1 || len(fd.Body.List) != 1 {
		return
	}
	outer, ok := fd.Body.List[0].(*ast.IfStmt)
	if !ok || outer.Else != nil {
		return
	}
	// guard must be  minCapacity > len(this.table)
	if be, ok := outer.Cond.(*ast.BinaryExpr); !ok || be.Op != token.GTR || !isLenTable(be.Y, recv) {
		return
	} else if id, ok := be.X.(*ast.Ident); !ok || id.Name != ps[0] {
		return
	}
	sc := &scope{recv: recv, rename: map[string]string{ps[0]: "minCapacity"}, consts: consts}
	var lets []string
	oldVar, newVar := "", ""
	seenMax := false
	for _, st := range outer.Body.List {
		if seenMax {
			break // make / copy / assignment of the new table: not part of the size computation
		}
		switch s := st.(type) {
		case *ast.IfStmt:
			// if this.table == nil { minCapacity = … }
			if be, ok := s.Cond.(*ast.BinaryExpr); ok && be.Op == token.EQL {
				if id, ok := be.Y.(*ast.Ident); ok && id.Name == "nil" && len(s.Body.List) == 1 && oldVar == "" {
					if as, ok := s.Body.List[0].(*ast.AssignStmt); ok && len(as.Lhs) == 1 && len(as.Rhs) == 1 {
						if l, ok := as.Lhs[0].(*ast.Ident); ok && l.Name == ps[0] {
							nilCap = sc.expr(as.Rhs[0])
							// the constant used
							ast.Inspect(as.Rhs[0], func(n ast.Node) bool {
								if id, ok := n.(*ast.Ident); ok {
									if v, ok := consts[id.Name]; ok {
										dcap = strconv.FormatInt(v, 10)
									}
								}
								return true
							})
							continue
						}
					}
				}
			}
			// if newSize > MAX { panic }
			if hasPanic(s.Body) {
				if be, ok := s.Cond.(*ast.BinaryExpr); ok && be.Op == token.GTR {
					if id, ok := be.X.(*ast.Ident); ok && id.Name == newVar {
						if v, ok := evalInt(be.Y, consts); ok {
							maxSize = strconv.FormatInt(v, 10)
							seenMax = true
							continue
						}
					}
				}
				return
			}
			// if C { x = E }   (x a local of the size computation)
			if s.Else == nil && len(s.Body.List) == 1 {
				if as, ok := s.Body.List[0].(*ast.AssignStmt); ok && as.Tok == token.ASSIGN && len(as.Lhs) == 1 {
					if l, ok := as.Lhs[0].(*ast.Ident); ok {
						if ln, ok := sc.rename[l.Name]; ok && ln != "minCapacity" && ln != "oldSize" {
							lets = append(lets, fmt.Sprintf("let %s := if %s then %s else %s", ln, sc.expr(s.Cond), sc.expr(as.Rhs[0]), ln))
							continue
						}
					}
				}
			}
			return
		case *ast.AssignStmt:
			if len(s.Lhs) != 1 || len(s.Rhs) != 1 {
				return
			}
			l, ok := s.Lhs[0].(*ast.Ident)
			if !ok {
				return
			}
			if s.Tok == token.DEFINE && isLenTable(s.Rhs[0], recv) {
				oldVar = l.Name
				sc.rename[l.Name] = "oldSize"
				continue
			}
			if s.Tok == token.DEFINE && newVar == "" && oldVar != "" {
				rhs := sc.expr(s.Rhs[0])
				newVar = l.Name
				sc.rename[l.Name] = "newSize"
				lets = append(lets, "let newSize := "+rhs)
				continue
			}
			if s.Tok == token.ASSIGN {
				if ln, ok := sc.rename[l.Name]; ok && ln == "newSize" {
					lets = append(lets, "let newSize := "+sc.expr(s.Rhs[0]))
					continue
				}
			}
			return
		default:
			return
		}
	}
	if newVar == "" || !seenMax {
		return
	}
	newSize = strings.Join(lets, "\n  ") + "\n  newSize"
	return
}

// guardFact: the first statement of get/set must be `if COND { panic(…) }`.
func guardFact(fd *ast.FuncDecl, consts map[string]int64) string {
	if fd == nil || len(fd.Body.List) == 0 {
		return unknown("guard")
	}
	s, ok := fd.Body.List[0].(*ast.IfStmt)
	if !ok || !hasPanic(s.Body) {
		return "false" // no guard at all
	}
	ps := paramNames(fd)
	if len(ps) == 0 {
		return unknown("guard parameters")
	}
	sc := &scope{recv: recvName(fd), consts: consts, rename: map[string]string{ps[0]: "i", "this.size": "size", "len(this.table)": "len"}}
	return "decide (" + sc.expr(s.Cond) + ")"
}

func addAllBound(fd *ast.FuncDecl) string {
	if fd == nil {
		return "missing"
	}
	ps := paramNames(fd)
	if len(ps) != 1 {
		return "unknown"
	}
	res := "unknown"
	ast.Inspect(fd.Body, func(n ast.Node) bool {
		f, ok := n.(*ast.ForStmt)
		if !ok || f.Cond == nil {
			return true
		}
		be, ok := f.Cond.(*ast.BinaryExpr)
		if !ok || be.Op != token.LSS {
			return true
		}
		switch y := be.Y.(type) {
		case *ast.SelectorExpr:
			if id, ok := y.X.(*ast.Ident); ok && id.Name == ps[0] && y.Sel.Name == "size" {
				res = "reread"
			}
		case *ast.Ident:
			// a local: must have been assigned from other.size before the loop
			ok2 := false
			for _, st := range fd.Body.List {
				if st == ast.Stmt(f) {
					break
				}
				if as, ok := st.(*ast.AssignStmt); ok && len(as.Lhs) == 1 && len(as.Rhs) == 1 {
					if l, ok := as.Lhs[0].(*ast.Ident); ok && l.Name == y.Name {
						if sel, ok := as.Rhs[0].(*ast.SelectorExpr); ok && sel.Sel.Name == "size" {
							if id, ok := sel.X.(*ast.Ident); ok && id.Name == ps[0] {
								ok2 = true
							}
						}
					}
				}
			}
			if ok2 {
				res = "hoisted"
			}
		}
		return false
	})
	return res
}

// callsOn lists, in order, the methods called on the first parameter inside fd.
func callsOn(fd *ast.FuncDecl) []string {
	if fd == nil {
		return nil
	}
	ps := paramNames(fd)
	if len(ps) != 1 {
		return nil
	}
	var out []string
	ast.Inspect(fd.Body, func(n ast.Node) bool {
		if c, ok := n.(*ast.CallExpr); ok {
			if s, ok := c.Fun.(*ast.SelectorExpr); ok {
				if id, ok := s.X.(*ast.Ident); ok && id.Name == ps[0] {
					out = append(out, s.Sel.Name)
				}
			}
		}
		return true
	})
	return out
}

func typeCode(fd *ast.FuncDecl, consts map[string]int64) string {
	if fd == nil || len(fd.Body.List) != 1 {
		return unknown("GetType")
	}
	r, ok := fd.Body.List[0].(*ast.ReturnStmt)
	if !ok || len(r.Results) != 1 {
		return unknown("GetType")
	}
	if v, ok := evalInt(r.Results[0], consts); ok {
		return strconv.FormatInt(v, 10)
	}
	return unknown("GetType")
}

func leanStrs(xs []string) string {
	q := make([]string, len(xs))
	for i, x := range xs {
		q[i] = strconv.Quote(x)
	}
	return "[" + strings.Join(q, ", ") + "]"
}

// ---------------------------------------------------------------- CompareChild / create

func constNamesIn0(n ast.Node, consts map[string]int64) []string {
	var out []string
	ast.Inspect(n, func(n ast.Node) bool {
		if id, ok := n.(*ast.Ident); ok {
			if _, ok := consts[id.Name]; ok {
				out = append(out, id.Name)
			}
		}
		return true
	})
	return out
}

func constNamesIn(e ast.Expr, consts map[string]int64) []string {
	var out []string
	ast.Inspect(e, func(n ast.Node) bool {
		if id, ok := n.(*ast.Ident); ok {
			if _, ok := consts[id.Name]; ok {
				out = append(out, id.Name)
			}
		}
		return true
	})
	return out
}

// firstCompare returns (compare function, getter) of the first `compare.F(child.G(..), child.G(..))` in b.
func firstCompare(b ast.Node) (string, string) {
	fn, getter := "?", "?"
	done := false
	ast.Inspect(b, func(n ast.Node) bool {
		if done {
			return false
		}
		if c, ok := n.(*ast.CallExpr); ok {
			if s, ok := c.Fun.(*ast.SelectorExpr); ok {
				if id, ok := s.X.(*ast.Ident); ok && id.Name == "compare" && len(c.Args) == 2 {
					if a, ok := c.Args[0].(*ast.CallExpr); ok {
						if as, ok := a.Fun.(*ast.SelectorExpr); ok {
							fn, getter = s.Sel.Name, as.Sel.Name
							done = true
						}
					}
				}
			}
		}
		return true
	})
	return fn, getter
}

func compareChildFacts(f *ast.File, consts map[string]int64) string {
	var fd *ast.FuncDecl
	for _, d := range f.Decls {
		if x, ok := d.(*ast.FuncDecl); ok && x.Name.Name == "CompareChild" {
			fd = x
		}
	}
	if fd == nil {
		return unknown("CompareChild")
	}
	// the dispatch on the child's type: the first if-chain or switch of the body
	var st ast.Stmt
	for _, x := range fd.Body.List {
		switch x.(type) {
		case *ast.IfStmt, *ast.SwitchStmt:
			if len(constNamesIn0(x, consts)) > 0 && st == nil {
				st = x
			}
		}
	}
	if st == nil {
		return unknown("CompareChild dispatch")
	}
	var rows []string
	for st != nil {
		switch s := st.(type) {
		case *ast.IfStmt:
			fn, g := firstCompare(s.Body)
			rows = append(rows, fmt.Sprintf("(%s, %q, %q)", leanStrs(constNamesIn(s.Cond, consts)), fn, g))
			st = s.Else
		case *ast.BlockStmt:
			fn, g := firstCompare(s)
			rows = append(rows, fmt.Sprintf("([], %q, %q)", fn, g))
			st = nil
		case *ast.SwitchStmt:
			for _, c := range s.Body.List {
				cc := c.(*ast.CaseClause)
				var names []string
				for _, e := range cc.List {
					names = append(names, constNamesIn(e, consts)...)
				}
				fn, g := firstCompare(cc)
				rows = append(rows, fmt.Sprintf("(%s, %q, %q)", leanStrs(names), fn, g))
			}
			st = nil
		default:
			return unknown("CompareChild statement")
		}
	}
	return "[" + strings.Join(rows, ", ") + "]"
}

func createFacts(f *ast.File, consts map[string]int64) string {
	var fd *ast.FuncDecl
	for _, d := range f.Decls {
		if x, ok := d.(*ast.FuncDecl); ok && x.Name.Name == "create" && x.Recv != nil {
			fd = x
		}
	}
	if fd == nil || len(fd.Body.List) != 1 {
		return unknown("StatGeneralPack.create")
	}
	sw, ok := fd.Body.List[0].(*ast.SwitchStmt)
	if !ok {
		return unknown("StatGeneralPack.create")
	}
	var rows []string
	for _, c := range sw.Body.List {
		cc := c.(*ast.CaseClause)
		ctor := "?"
		ast.Inspect(cc, func(n ast.Node) bool {
			if call, ok := n.(*ast.CallExpr); ok {
				if s, ok := call.Fun.(*ast.SelectorExpr); ok {
					ctor = s.Sel.Name
				}
			}
			return true
		})
		if len(cc.List) == 0 {
			rows = append(rows, fmt.Sprintf("(0, %q)", ctor))
		}
		for _, e := range cc.List {
			v := int64(-1)
			if s, ok := e.(*ast.SelectorExpr); ok {
				if x, ok := consts[s.Sel.Name]; ok {
					v = x
				}
			} else if x, ok := evalInt(e, consts); ok {
				v = x
			}
			rows = append(rows, fmt.Sprintf("(%d, %q)", v, ctor))
		}
	}
	return "[" + strings.Join(rows, ", ") + "]"
}

// ---------------------------------------------------------------- interpreted comparator closures

// closureOf finds `c := func(o1, o2 *XKeyVal) bool { … }` in a method body.
func closureOf(fd *ast.FuncDecl) *ast.FuncLit {
	var lit *ast.FuncLit
	if fd == nil {
		return nil
	}
	ast.Inspect(fd.Body, func(n ast.Node) bool {
		if f, ok := n.(*ast.FuncLit); ok && lit == nil {
			lit = f
			return false
		}
		return true
	})
	return lit
}

// closureLean compiles the comparator closure of Sorting / SortingAnyList.
//   o1.value, o2.value → v1, v2     o1.key, o2.key → k1, k2     asc → asc
//   compare.F(a, b) → (cmp a b)  (F is recorded)     CompareChild(child, childAsc, a, b) → (cc a b)
func closureLean(fd *ast.FuncDecl, cmpName *string) string {
	lit := closureOf(fd)
	if lit == nil || len(lit.Type.Params.List) == 0 {
		return unknown("comparator closure")
	}
	var ps []string
	for _, p := range lit.Type.Params.List {
		for _, n := range p.Names {
			ps = append(ps, n.Name)
		}
	}
	if len(ps) != 2 {
		return unknown("comparator closure parameters")
	}
	mps := paramNames(fd) // Sorting(asc) / SortingAnyList(asc, child, childAsc)
	c := &cc{}
	c.leaf = func(e ast.Expr) (string, bool) {
		switch x := e.(type) {
		case *ast.Ident:
			if len(mps) > 0 && x.Name == mps[0] {
				return "asc", true
			}
		case *ast.SelectorExpr:
			if id, ok := x.X.(*ast.Ident); ok {
				for i, p := range ps {
					if id.Name == p {
						switch x.Sel.Name {
						case "value":
							return "v" + strconv.Itoa(i+1), true
						case "key":
							return "k" + strconv.Itoa(i+1), true
						}
					}
				}
			}
		case *ast.CallExpr:
			if s, ok := x.Fun.(*ast.SelectorExpr); ok && len(x.Args) == 2 {
				if id, ok := s.X.(*ast.Ident); ok && id.Name == "compare" {
					if *cmpName == "" {
						*cmpName = s.Sel.Name
					} else if *cmpName != s.Sel.Name {
						return unknown("two different compare functions in one closure"), true
					}
					return "(cmp " + c.atom(x.Args[0]) + " " + c.atom(x.Args[1]) + ")", true
				}
			}
			if id, ok := x.Fun.(*ast.Ident); ok && id.Name == "CompareChild" && len(x.Args) == 4 && len(mps) == 3 {
				a0, ok0 := x.Args[0].(*ast.Ident)
				a1, ok1 := x.Args[1].(*ast.Ident)
				if ok0 && ok1 && a0.Name == mps[1] && a1.Name == mps[2] {
					return "(cc " + c.atom(x.Args[2]) + " " + c.atom(x.Args[3]) + ")", true
				}
				return unknown("CompareChild called with other arguments than (child, childAsc, …)"), true
			}
		}
		return "", false
	}
	return c.block(lit.Body.List)
}

// compareFnLean compiles compare.CompareToX:  l == r → (eq l r),  l > r → (gt l r),  l < r → (gt r l)
func compareFnLean(fd *ast.FuncDecl) string {
	ps := paramNames(fd)
	if len(ps) != 2 {
		return unknown("compare function parameters")
	}
	c := &cc{}
	c.leaf = func(e ast.Expr) (string, bool) {
		switch x := e.(type) {
		case *ast.Ident:
			if x.Name == ps[0] {
				return "l", true
			}
			if x.Name == ps[1] {
				return "r", true
			}
		case *ast.BinaryExpr:
			a, ok1 := x.X.(*ast.Ident)
			b, ok2 := x.Y.(*ast.Ident)
			if ok1 && ok2 {
				n := func(s string) string {
					if s == ps[0] {
						return "l"
					}
					return "r"
				}
				switch x.Op {
				case token.EQL:
					return "(eq " + n(a.Name) + " " + n(b.Name) + ")", true
				case token.GTR:
					return "(gt " + n(a.Name) + " " + n(b.Name) + ")", true
				case token.LSS:
					return "(gt " + n(b.Name) + " " + n(a.Name) + ")", true
				}
			}
		}
		return "", false
	}
	return c.block(fd.Body.List)
}

// compareChildLean compiles CompareChild:
//   child.GetType() → ty     ord → ord     compare.F(child.G(a), child.G(b)) → (c "F" "G" a b)
func compareChildLean(f *ast.File, consts map[string]int64) string {
	var fd *ast.FuncDecl
	for _, d := range f.Decls {
		if x, ok := d.(*ast.FuncDecl); ok && x.Name.Name == "CompareChild" {
			fd = x
		}
	}
	if fd == nil {
		return unknown("CompareChild")
	}
	ps := paramNames(fd)
	if len(ps) != 4 {
		return unknown("CompareChild parameters")
	}
	c := &cc{}
	c.leaf = func(e ast.Expr) (string, bool) {
		switch x := e.(type) {
		case *ast.Ident:
			switch x.Name {
			case ps[1]:
				return "ord", true
			case ps[2]:
				return "i1", true
			case ps[3]:
				return "i2", true
			}
			if v, ok := consts[x.Name]; ok {
				return strconv.FormatInt(v, 10), true
			}
		case *ast.CallExpr:
			if s, ok := x.Fun.(*ast.SelectorExpr); ok {
				if id, ok := s.X.(*ast.Ident); ok {
					if id.Name == ps[0] && s.Sel.Name == "GetType" && len(x.Args) == 0 {
						return "ty", true
					}
					if id.Name == "compare" && len(x.Args) == 2 {
						a, ok1 := x.Args[0].(*ast.CallExpr)
						b, ok2 := x.Args[1].(*ast.CallExpr)
						if ok1 && ok2 && len(a.Args) == 1 && len(b.Args) == 1 {
							as, ok3 := a.Fun.(*ast.SelectorExpr)
							bs, ok4 := b.Fun.(*ast.SelectorExpr)
							if ok3 && ok4 && as.Sel.Name == bs.Sel.Name {
								ar, ok5 := as.X.(*ast.Ident)
								br, ok6 := bs.X.(*ast.Ident)
								if ok5 && ok6 && ar.Name == ps[0] && br.Name == ps[0] {
									return fmt.Sprintf("(c %q %q %s %s)", s.Sel.Name, as.Sel.Name, c.atom(a.Args[0]), c.atom(b.Args[0])), true
								}
							}
						}
						return unknown("compare call in CompareChild"), true
					}
				}
			}
		}
		return "", false
	}
	return c.block(fd.Body.List)
}

// createLean compiles StatGeneralPack.create(t) to a Lean function  type code ↦ constructor name
func createLean(f *ast.File, consts map[string]int64) string {
	var fd *ast.FuncDecl
	for _, d := range f.Decls {
		if x, ok := d.(*ast.FuncDecl); ok && x.Name.Name == "create" && x.Recv != nil {
			fd = x
		}
	}
	if fd == nil {
		return unknown("StatGeneralPack.create")
	}
	ps := paramNames(fd)
	if len(ps) != 1 {
		return unknown("create parameters")
	}
	c := &cc{}
	c.leaf = func(e ast.Expr) (string, bool) {
		switch x := e.(type) {
		case *ast.Ident:
			if x.Name == ps[0] {
				return "t", true
			}
			if v, ok := consts[x.Name]; ok {
				return strconv.FormatInt(v, 10), true
			}
		case *ast.SelectorExpr:
			if id, ok := x.X.(*ast.Ident); ok && id.Name == "list" {
				if v, ok := consts[x.Sel.Name]; ok {
					return strconv.FormatInt(v, 10), true
				}
			}
		case *ast.CallExpr:
			if s, ok := x.Fun.(*ast.SelectorExpr); ok && len(x.Args) == 0 {
				if id, ok := s.X.(*ast.Ident); ok && id.Name == "list" {
					return strconv.Quote(s.Sel.Name), true
				}
			}
		}
		return "", false
	}
	return c.block(fd.Body.List)
}

func main() {
	repo := flag.String("repo", "/repo", "repository root")
	out := flag.String("out", "", "output Lean file")
	flag.Parse()
	dir := filepath.Join(*repo, "util", "list")
	consts := map[string]int64{}
	anyF := parse(filepath.Join(dir, "AnyList.go"))
	constsOf(anyF, consts)

	var sb strings.Builder
	sb.WriteString("/- GENERATED by xlate/c13 from util/list/*.go and lang/pack/StatGeneralPack.go — do not edit -/\n")
	sb.WriteString("set_option linter.unusedVariables false\nnamespace Gen.C13\n\n")
	for _, name := range []string{"ANYLIST_DEFAULT_CAPACITY", "ANYLIST_MAX_SIZE", "ANYLIST_INT", "ANYLIST_LONG", "ANYLIST_FLOAT", "ANYLIST_DOUBLE", "ANYLIST_STRING"} {
		if v, ok := consts[name]; ok {
			fmt.Fprintf(&sb, "def %s : Nat := %d\n", name, v)
		} else {
			fmt.Fprintf(&sb, "def %s : Nat := %s\n", name, unknown("constant "+name))
		}
	}
	sb.WriteString("\n")
	for _, T := range []string{"IntList", "LongList", "FloatList", "DoubleList", "StringList"} {
		f := parse(filepath.Join(dir, T+".go"))
		ms, typ := methods(f)
		if typ != T || ms["ensure"] == nil {
			fmt.Fprintf(&sb, "def %s.missing : Nat := %s\n", T, unknown("type "+T))
			continue
		}
		nilCap, newSize, maxSize, dcap := ensureFacts(ms["ensure"], consts)
		fmt.Fprintf(&sb, "def %s.nilCap (minCapacity : Nat) : Nat := %s\n", T, nilCap)
		fmt.Fprintf(&sb, "def %s.newSize (oldSize minCapacity : Nat) : Nat :=\n  %s\n", T, newSize)
		fmt.Fprintf(&sb, "def %s.maxSize : Nat := %s\n", T, maxSize)
		fmt.Fprintf(&sb, "def %s.dcap : Nat := %s\n", T, dcap)
		fmt.Fprintf(&sb, "def %s.getPanics (i size len : Int) : Bool := %s\n", T, guardFact(ms["get"], consts))
		fmt.Fprintf(&sb, "def %s.setPanics (i size len : Int) : Bool := %s\n", T, guardFact(ms["set"], consts))
		fmt.Fprintf(&sb, "def %s.addAllBound : String := %q\n", T, addAllBound(ms["AddAll"]))
		w, r := callsOn(ms["Write"]), callsOn(ms["Read"])
		fmt.Fprintf(&sb, "def %s.wire : List String := %s\n", T, leanStrs(append(append([]string{}, w...), r...)))
		fmt.Fprintf(&sb, "def %s.typeCode : Nat := %s\n", T, typeCode(ms["GetType"], consts))
		cmp1, cmp2 := "", ""
		fmt.Fprintf(&sb, "def %s.sortingLess {α : Type} (cmp : α → α → Int) (asc : Bool) (v1 v2 : α) : Bool :=\n  %s\n", T, closureLean(ms["Sorting"], &cmp1))
		fmt.Fprintf(&sb, "def %s.sortingAnyLess {α : Type} (cmp : α → α → Int) (asc : Bool) (cc : Nat → Nat → Int) (k1 : Nat) (v1 : α) (k2 : Nat) (v2 : α) : Bool :=\n  %s\n", T, closureLean(ms["SortingAnyList"], &cmp2))
		fmt.Fprintf(&sb, "def %s.compareFns : List String := %s\n\n", T, leanStrs([]string{cmp1, cmp2}))
	}
	fmt.Fprintf(&sb, "def compareChild : List (List String × String × String) := %s\n", compareChildFacts(anyF, consts))
	fmt.Fprintf(&sb, "def compareChildF (ty : Nat) (ord : Bool) (c : String → String → Nat → Nat → Int) (i1 i2 : Nat) : Int :=\n  %s\n", compareChildLean(anyF, consts))
	cf := parse(filepath.Join(*repo, "util", "compare", "CompareUtil.go"))
	for _, name := range []string{"CompareToInt", "CompareToLong", "CompareToFloat", "CompareToDouble"} {
		var fd *ast.FuncDecl
		for _, d := range cf.Decls {
			if x, ok := d.(*ast.FuncDecl); ok && x.Name.Name == name && x.Recv == nil {
				fd = x
			}
		}
		body := unknown("compare." + name)
		if fd != nil {
			body = compareFnLean(fd)
		}
		fmt.Fprintf(&sb, "def %s {α : Type} (eq gt : α → α → Bool) (l r : α) : Int :=\n  %s\n", name, body)
	}
	{
		// CompareToString must be `return strings.Compare(l, r)`
		isSC := false
		for _, d := range cf.Decls {
			if x, ok := d.(*ast.FuncDecl); ok && x.Name.Name == "CompareToString" && x.Recv == nil && len(x.Body.List) == 1 {
				if r, ok := x.Body.List[0].(*ast.ReturnStmt); ok && len(r.Results) == 1 {
					if call, ok := r.Results[0].(*ast.CallExpr); ok && len(call.Args) == 2 {
						if s, ok := call.Fun.(*ast.SelectorExpr); ok && s.Sel.Name == "Compare" {
							if id, ok := s.X.(*ast.Ident); ok && id.Name == "strings" {
								ps := paramNames(x)
								a, ok1 := call.Args[0].(*ast.Ident)
								b, ok2 := call.Args[1].(*ast.Ident)
								isSC = ok1 && ok2 && len(ps) == 2 && a.Name == ps[0] && b.Name == ps[1]
							}
						}
					}
				}
			}
		}
		fmt.Fprintf(&sb, "def CompareToString_isStringsCompare : Bool := %v\n", isSC)
	}
	pf := parse(filepath.Join(*repo, "lang", "pack", "StatGeneralPack.go"))
	fmt.Fprintf(&sb, "def create : List (Nat × String) := %s\n", createFacts(pf, consts))
	fmt.Fprintf(&sb, "def createF (t : Nat) : String :=\n  %s\n", createLean(pf, consts))
	sb.WriteString("\nend Gen.C13\n")
	if *out == "" {
		fmt.Print(sb.String())
		return
	}
	if err := os.WriteFile(*out, []byte(sb.String()), 0o644); err != nil {
		fmt.Fprintln(os.Stderr, err)
		os.Exit(1)
	}
}
