module verif/xlate/x03

go 1.23
