// xlate/x03 — re-reads from the Go source (go/parser, go/ast, go/printer only) what the model of the UDP
// client's batching machine (Golib.Ext.UdpClient) takes from net/udp/UcpClient.go and net/UdpClient.go, and
// writes it as Lean data (Golib/Gen/X03.lean); the obligations are in Golib/Props/X03Gen.lean.
//
//   per file: the integer constants (evaluated: literals, *, +),
//             sendByBuffer: the DataOutputX writes that build the frame, in order;
//                           the conditions of its if statements, in order; per if: the calls made in its body
//                           (selector names, in order), so that the order `send to channel` / `buffer.Reset` shows;
//             sendBuffer / sendUDP / Shutdown / process: the same decision skeleton;
//             GetUdpClient: the goroutines started (`go x.f()`).
package main

import (
	"bytes"
	"flag"
	"fmt"
	"go/ast"
	"go/parser"
	"go/printer"
	"go/token"
	"os"
	"path/filepath"
	"strconv"
	"strings"
)

func die(f string, a ...interface{}) {
	fmt.Fprintf(os.Stderr, "xlate/x03: "+f+"\n", a...)
	os.Exit(1)
}

var fset = token.NewFileSet()

func text(n ast.Node) string {
	var b bytes.Buffer
	printer.Fprint(&b, fset, n)
	return strings.Join(strings.Fields(b.String()), " ")
}

func eval(e ast.Expr, env map[string]int64) (int64, bool) {
	switch t := e.(type) {
	case *ast.BasicLit:
		if t.Kind == token.INT {
			v, err := strconv.ParseInt(t.Value, 0, 64)
			return v, err == nil
		}
	case *ast.Ident:
		v, ok := env[t.Name]
		return v, ok
	case *ast.ParenExpr:
		return eval(t.X, env)
	case *ast.BinaryExpr:
		a, ok1 := eval(t.X, env)
		b, ok2 := eval(t.Y, env)
		if ok1 && ok2 {
			switch t.Op {
			case token.MUL:
				return a * b, true
			case token.ADD:
				return a + b, true
			case token.SUB:
				return a - b, true
			}
		}
	}
	return 0, false
}

func lstr(s string) string { return strconv.Quote(s) }

func lstrs(xs []string) string {
	q := make([]string, len(xs))
	for i, x := range xs {
		q[i] = lstr(x)
	}
	return "[" + strings.Join(q, ", ") + "]"
}

// calls made in a block, as selector texts, in source order (not descending into nested ifs' conditions twice)
// calls that neither change nor test the machine's state: logging, copying, length queries
var noise = map[string]bool{"len": true, "cap": true, "make": true, "copy": true, "append": true, "[]byte": true, "recover": true, "fmt.Println": true,
	"fmt.Printf": true, "fmt.Errorf": true, "log.Println": true, "this.conf.Log.Error": true, "this.conf.Log.Debug": true,
	"this.buffer.Len": true, "this.buffer.Bytes": true, "dateutil.Now": true}

// conditions that only guard logging
var noiseCond = map[string]bool{"this.conf.Debug": true, "len(this.sendCh) == cap(this.sendCh)": true, "r != nil": true}

func calls(n ast.Node) []string {
	out := []string{}
	ast.Inspect(n, func(x ast.Node) bool {
		switch c := x.(type) {
		case *ast.FuncLit:
			return false
		case *ast.CallExpr:
			if t := text(c.Fun); !noise[t] && !strings.HasPrefix(t, "func()") {
				out = append(out, t)
			}
		case *ast.SendStmt:
			out = append(out, "chan<- "+text(c.Chan))
		}
		return true
	})
	return out
}

type skel struct {
	conds []string
	body  [][]string
}

func skeleton(fd *ast.FuncDecl) skel {
	var s skel
	ast.Inspect(fd.Body, func(x ast.Node) bool {
		if is, ok := x.(*ast.IfStmt); ok && !noiseCond[text(is.Cond)] {
			s.conds = append(s.conds, text(is.Cond))
			s.body = append(s.body, calls(is.Body))
		}
		return true
	})
	return s
}

func emitFile(b *strings.Builder, repo, rel, ns string) {
	f, err := parser.ParseFile(fset, filepath.Join(repo, rel), nil, 0)
	if err != nil {
		die("%v", err)
	}
	env := map[string]int64{}
	var names []string
	fns := map[string]*ast.FuncDecl{}
	for _, d := range f.Decls {
		switch t := d.(type) {
		case *ast.GenDecl:
			if t.Tok != token.CONST {
				continue
			}
			for _, sp := range t.Specs {
				vs := sp.(*ast.ValueSpec)
				for i, n := range vs.Names {
					if i < len(vs.Values) {
						if v, ok := eval(vs.Values[i], env); ok {
							env[n.Name] = v
							names = append(names, n.Name)
						}
					}
				}
			}
		case *ast.FuncDecl:
			if t.Body != nil {
				fns[t.Name.Name] = t
			}
		}
	}
	fmt.Fprintf(b, "namespace %s\n\n/-- integer constants of %s -/\ndef consts : List (String × Nat) :=\n  [", ns, rel)
	for i, n := range names {
		if i > 0 {
			b.WriteString(",\n   ")
		}
		fmt.Fprintf(b, "(%s, %d)", lstr(n), env[n])
	}
	b.WriteString("]\n\n")

	sb := fns["sendByBuffer"]
	if sb == nil {
		die("%s: no sendByBuffer", rel)
	}
	// the frame writes: calls on `out` in sendByBuffer
	var writes []string
	ast.Inspect(sb.Body, func(x ast.Node) bool {
		if c, ok := x.(*ast.CallExpr); ok {
			if se, ok := c.Fun.(*ast.SelectorExpr); ok {
				if id, ok := se.X.(*ast.Ident); ok && id.Name == "out" && strings.HasPrefix(se.Sel.Name, "Write") {
					writes = append(writes, text(c))
				}
			}
		}
		return true
	})
	fmt.Fprintf(b, "/-- sendByBuffer: the writes that build a frame -/\ndef frameWrites : List String :=\n  %s\n\n", lstrs(writes))
	for _, fn := range []string{"sendByBuffer", "sendBuffer", "sendUDP", "Shutdown", "process"} {
		fd := fns[fn]
		if fd == nil {
			die("%s: no %s", rel, fn)
		}
		s := skeleton(fd)
		fmt.Fprintf(b, "/-- %s: (condition of each if statement, the calls and channel sends in its body), in order -/\ndef %sIfs : List (String × List String) :=\n  [", fn, fn)
		for i := range s.conds {
			if i > 0 {
				b.WriteString(",\n   ")
			}
			fmt.Fprintf(b, "(%s, %s)", lstr(s.conds[i]), lstrs(s.body[i]))
		}
		b.WriteString("]\n\n")
	}
	// Shutdown's and process's straight-line calls
	for _, fn := range []string{"Shutdown", "process"} {
		fmt.Fprintf(b, "/-- %s: every call, in order -/\ndef %sCalls : List String :=\n  %s\n\n", fn, fn, lstrs(calls(fns[fn].Body)))
	}
	g := fns["GetUdpClient"]
	if g == nil {
		die("%s: no GetUdpClient", rel)
	}
	var gos []string
	for _, st := range g.Body.List {
		if gs, ok := st.(*ast.GoStmt); ok {
			if _, lit := gs.Call.Fun.(*ast.FuncLit); lit {
				gos = append(gos, "func-literal")
			} else {
				gos = append(gos, text(gs.Call.Fun))
			}
		}
	}
	fmt.Fprintf(b, "/-- GetUdpClient: the goroutines it starts -/\ndef goroutines : List String :=\n  %s\n\n", lstrs(gos))
	// GetUdpClient: the assignments to the singleton variable, in order
	var asg []string
	for _, st := range g.Body.List {
		if a, ok := st.(*ast.AssignStmt); ok && len(a.Lhs) == 1 && text(a.Lhs[0]) == "udpClient" {
			asg = append(asg, text(a.Rhs[0]))
		}
	}
	fmt.Fprintf(b, "/-- GetUdpClient: what is assigned to the singleton variable, in order -/\ndef singletonAssigns : List String :=\n  %s\n\nend %s\n\n", lstrs(asg), ns)
}

func main() {
	repo := flag.String("repo", "/repo", "repository root")
	out := flag.String("out", "", "output file")
	flag.Parse()
	var b strings.Builder
	b.WriteString("/- GENERATED by xlate/x03 from the Go source — do not edit. -/\n\n")
	emitFile(&b, *repo, "net/udp/UcpClient.go", "Gen.X03.Ucp")
	emitFile(&b, *repo, "net/UdpClient.go", "Gen.X03.Old")
	if *out == "" {
		fmt.Print(b.String())
		return
	}
	if err := os.WriteFile(*out, []byte(b.String()), 0o644); err != nil {
		die("%v", err)
	}
}
