module verif/xlate/c14

go 1.23
