// xlate/c14 — tie A for property C14.
//
// Transcribes facts of /repo/util/hll/{RegisterSet,HyperLogLog}.go into Lean data
// (lean/Golib/Gen/C14.lean): constants, the clz table, and the integer/float expressions of
// the functions the CodeModel follows, as trees of `HLL.Src.Ex`.  It never judges: the
// obligations over these facts are in lean/Golib/Props/C14Gen.lean (each generated tree equals
// the tree the bridge theorems of Golib/HLL/Src.lean were proved about).
//
// Normalisation (so that a rename or a reordering of independent statements is not a change):
// the receiver is `recv`, parameters are numbered, single-assignment locals are inlined into
// the expressions that use them, package constants are replaced by their values.  A shape the
// translator does not recognise becomes `.unknown "…"`, which makes the obligation fail —
// never silently skipped.
//
// Type tags on operators/conversions: 0 untyped constant, 8/32/64 = uint8/uint32/uint64,
// 63 = int/int64/int32, 1 = float64, 2 = bool.
package main

import (
	"bytes"
	"regexp"
	"flag"
	"fmt"
	"go/ast"
	"go/parser"
	"go/printer"
	"go/token"
	"os"
	"path/filepath"
	"strconv"
	"strings"
)

var fset = token.NewFileSet()

func parse(path string) *ast.File {
	f, err := parser.ParseFile(fset, path, nil, 0)
	if err != nil {
		fmt.Fprintln(os.Stderr, err)
		os.Exit(1)
	}
	return f
}

func q(s string) string { return strconv.Quote(s) }

func unknown(why string) string { return "(.unknown " + q(why) + ")" }

// ---------------------------------------------------------------- package facts

var consts = map[string]int64{}
var structFields = map[string]map[string]string{} // type -> field -> Go type text
var funcs = map[string]*ast.FuncDecl{}             // "Recv.Name" or "Name"
var globals = map[string]*ast.ValueSpec{}

func typeText(e ast.Expr) string {
	var b bytes.Buffer
	printer.Fprint(&b, fset, e)
	return b.String()
}

func tagOfType(t string) int {
	switch t {
	case "uint8", "byte":
		return 8
	case "uint32":
		return 32
	case "uint64", "uint":
		return 64
	case "int", "int64", "int32":
		return 63
	case "float64":
		return 1
	case "bool":
		return 2
	case "[]uint32":
		return 32
	case "[]uint8":
		return 8
	}
	return 0
}

func collect(f *ast.File) {
	for _, d := range f.Decls {
		switch d := d.(type) {
		case *ast.GenDecl:
			for _, sp := range d.Specs {
				switch sp := sp.(type) {
				case *ast.ValueSpec:
					if d.Tok == token.CONST {
						for i, n := range sp.Names {
							if i < len(sp.Values) {
								if bl, ok := sp.Values[i].(*ast.BasicLit); ok && bl.Kind == token.INT {
									v, _ := strconv.ParseInt(bl.Value, 0, 64)
									consts[n.Name] = v
								}
							}
						}
					} else {
						for _, n := range sp.Names {
							globals[n.Name] = sp
						}
					}
				case *ast.TypeSpec:
					if st, ok := sp.Type.(*ast.StructType); ok {
						m := map[string]string{}
						for _, fl := range st.Fields.List {
							for _, n := range fl.Names {
								m[n.Name] = typeText(fl.Type)
							}
						}
						structFields[sp.Name.Name] = m
					}
				}
			}
		case *ast.FuncDecl:
			name := d.Name.Name
			if d.Recv != nil && len(d.Recv.List) == 1 {
				t := typeText(d.Recv.List[0].Type)
				name = strings.TrimPrefix(t, "*") + "." + name
			}
			funcs[name] = d
		}
	}
}

// result tags of the functions/methods that are called
var resultTag = map[string]int{
	"clz32": 8, "clz64": 8, "getBits": 63, "linearCounting": 1, "Round": 63, "len": 63,
	"registerSet.Get": 32, "registerSet.UpdateIfGreater": 2, "offerHashed": 2,
	"MurmurHash": 32, "MurmurHashLong": 32, "math.Log": 1, "getAlphaMM": 1,
}

// ---------------------------------------------------------------- expression translation

type val struct {
	ex  string
	tag int
}

type scope struct {
	recvName string
	recvType string
	params   map[string]int
	ptag     map[string]int
	inl      map[string]val // inlined single-assignment locals
	loc      map[string]int // other locals (mutated, loop variables): tag
	locName  map[string]string // … and their canonical names l0, l1, … in order of declaration
}

func (s *scope) addLoc(name string, tag int) {
	if _, ok := s.locName[name]; !ok {
		s.locName[name] = fmt.Sprintf("l%d", len(s.locName))
	}
	s.loc[name] = tag
}

func newScope(fd *ast.FuncDecl) *scope {
	s := &scope{params: map[string]int{}, ptag: map[string]int{}, inl: map[string]val{}, loc: map[string]int{}, locName: map[string]string{}}
	if fd.Recv != nil && len(fd.Recv.List) == 1 && len(fd.Recv.List[0].Names) == 1 {
		s.recvName = fd.Recv.List[0].Names[0].Name
		s.recvType = strings.TrimPrefix(typeText(fd.Recv.List[0].Type), "*")
	}
	i := 0
	for _, fl := range fd.Type.Params.List {
		for _, n := range fl.Names {
			s.params[n.Name] = i
			s.ptag[n.Name] = tagOfType(typeText(fl.Type))
			i++
		}
	}
	return s
}

var opName = map[token.Token]string{
	token.ADD: "add", token.SUB: "sub", token.MUL: "mul", token.QUO: "div", token.REM: "mod",
	token.SHL: "shl", token.SHR: "shr", token.AND: "and", token.OR: "or", token.AND_NOT: "andnot", token.XOR: "xor",
	token.LSS: "lt", token.LEQ: "le", token.GTR: "gt", token.GEQ: "ge", token.EQL: "eq", token.NEQ: "ne",
	token.LAND: "land", token.LOR: "lor",
}

func isCmp(t token.Token) bool {
	switch t {
	case token.LSS, token.LEQ, token.GTR, token.GEQ, token.EQL, token.NEQ:
		return true
	}
	return false
}

// selector path of recv.a.b ; ok=false when it does not start at the receiver
func (s *scope) recvPath(e ast.Expr) (string, string, bool) {
	switch e := e.(type) {
	case *ast.Ident:
		if e.Name == s.recvName && s.recvName != "" {
			return "", s.recvType, true
		}
	case *ast.SelectorExpr:
		if p, t, ok := s.recvPath(e.X); ok {
			ft := strings.TrimPrefix(structFields[t][e.Sel.Name], "*")
			if p == "" {
				return e.Sel.Name, ft, true
			}
			return p + "." + e.Sel.Name, ft, true
		}
	}
	return "", "", false
}

func floatLit(v string) (string, bool) {
	// decimal literal "d.ddd" -> mantissa, number of decimals
	if strings.ContainsAny(v, "eExXpP_") {
		return "", false
	}
	parts := strings.SplitN(v, ".", 2)
	dec := 0
	digits := parts[0]
	if len(parts) == 2 {
		dec = len(parts[1])
		digits += parts[1]
	}
	digits = strings.TrimLeft(digits, "0")
	if digits == "" {
		digits = "0"
	}
	return fmt.Sprintf("(.flit %s %d)", digits, dec), true
}

func (s *scope) tr(e ast.Expr, expect int) val {
	switch e := e.(type) {
	case *ast.ParenExpr:
		return s.tr(e.X, expect)
	case *ast.BasicLit:
		switch e.Kind {
		case token.INT:
			v, err := strconv.ParseUint(e.Value, 0, 64)
			if err != nil {
				return val{unknown("int literal " + e.Value), 0}
			}
			return val{fmt.Sprintf("(.lit %d)", v), 0}
		case token.FLOAT:
			if x, ok := floatLit(e.Value); ok {
				return val{x, 0}
			}
		}
		return val{unknown("literal " + e.Value), 0}
	case *ast.Ident:
		if v, ok := s.inl[e.Name]; ok {
			return v
		}
		if i, ok := s.params[e.Name]; ok {
			return val{fmt.Sprintf("(.arg %d)", i), s.ptag[e.Name]}
		}
		if t, ok := s.loc[e.Name]; ok {
			return val{"(.loc " + q(s.locName[e.Name]) + ")", t}
		}
		if c, ok := consts[e.Name]; ok {
			return val{fmt.Sprintf("(.lit %d)", c), 0}
		}
		if e.Name == "true" {
			return val{".tt", 2}
		}
		if e.Name == "false" {
			return val{".ff", 2}
		}
		if g, ok := globals[e.Name]; ok {
			t := 0
			if len(g.Values) == 1 {
				if cl, ok := g.Values[0].(*ast.CompositeLit); ok {
					t = tagOfType(typeText(cl.Type))
				}
			}
			return val{"(.glob " + q(e.Name) + ")", t}
		}
		return val{unknown("identifier " + e.Name), 0}
	case *ast.SelectorExpr:
		if p, t, ok := s.recvPath(e); ok && p != "" {
			return val{"(.recv " + q(p) + ")", tagOfType(t)}
		}
		// a field of a parameter, e.g. that.M
		if id, ok := e.X.(*ast.Ident); ok {
			if i, ok := s.params[id.Name]; ok {
				return val{fmt.Sprintf("(.fld (.arg %d) %s)", i, q(e.Sel.Name)), tagOfType(structFields[s.recvType][e.Sel.Name])}
			}
		}
		return val{unknown("selector " + typeText(e)), 0}
	case *ast.IndexExpr:
		a := s.tr(e.X, 0)
		i := s.tr(e.Index, 63)
		return val{"(.idx " + a.ex + " " + i.ex + ")", a.tag}
	case *ast.UnaryExpr:
		x := s.tr(e.X, expect)
		t := x.tag
		if t == 0 {
			t = expect
		}
		switch e.Op {
		case token.XOR:
			return val{fmt.Sprintf("(.not %d %s)", t, x.ex), t}
		case token.NOT:
			return val{fmt.Sprintf("(.not 2 %s)", x.ex), 2}
		}
		return val{unknown("unary " + e.Op.String()), 0}
	case *ast.BinaryExpr:
		op, ok := opName[e.Op]
		if !ok {
			return val{unknown("operator " + e.Op.String()), 0}
		}
		if e.Op == token.SHL || e.Op == token.SHR {
			l := s.tr(e.X, expect)
			r := s.tr(e.Y, 0)
			t := l.tag
			if t == 0 {
				t = expect
			}
			return val{fmt.Sprintf("(.bin .%s %d %s %s)", op, t, l.ex, r.ex), t}
		}
		ex := expect
		if isCmp(e.Op) || e.Op == token.LAND || e.Op == token.LOR {
			ex = 0
		}
		l := s.tr(e.X, ex)
		r := s.tr(e.Y, ex)
		if l.tag == 0 && r.tag != 0 {
			l = s.tr(e.X, r.tag)
		}
		if r.tag == 0 && l.tag != 0 {
			r = s.tr(e.Y, l.tag)
		}
		t := l.tag
		if t == 0 {
			t = r.tag
		}
		if t == 0 {
			t = ex
		}
		if isCmp(e.Op) {
			return val{fmt.Sprintf("(.bin .%s %d %s %s)", op, t, l.ex, r.ex), 2}
		}
		if e.Op == token.LAND || e.Op == token.LOR {
			return val{fmt.Sprintf("(.bin .%s 2 %s %s)", op, l.ex, r.ex), 2}
		}
		return val{fmt.Sprintf("(.bin .%s %d %s %s)", op, t, l.ex, r.ex), t}
	case *ast.CallExpr:
		// conversion?
		if id, ok := e.Fun.(*ast.Ident); ok && len(e.Args) == 1 {
			if t := tagOfType(id.Name); t != 0 && !strings.HasPrefix(id.Name, "[]") {
				x := s.tr(e.Args[0], 0)
				return val{fmt.Sprintf("(.conv %d %s)", t, x.ex), t}
			}
		}
		name := ""
		switch f := e.Fun.(type) {
		case *ast.Ident:
			name = f.Name
		case *ast.SelectorExpr:
			if p, _, ok := s.recvPath(f); ok {
				name = p
			} else {
				name = typeText(f)
			}
		}
		if name == "" {
			return val{unknown("call " + typeText(e.Fun)), 0}
		}
		t := resultTag[name]
		switch len(e.Args) {
		case 1:
			a := s.tr(e.Args[0], 0)
			return val{"(.call1 " + q(name) + " " + a.ex + ")", t}
		case 2:
			a := s.tr(e.Args[0], 0)
			b := s.tr(e.Args[1], 0)
			return val{"(.call2 " + q(name) + " " + a.ex + " " + b.ex + ")", t}
		}
		return val{unknown("call arity " + name), 0}
	}
	return val{unknown("expression " + typeText(e)), 0}
}

// leavesAssignSame: an if/else tree whose leaves are single assignments `v = e` to one variable
func (s *scope) iteOfAssign(st ast.Stmt) (string, string, bool) {
	switch st := st.(type) {
	case *ast.BlockStmt:
		if len(st.List) == 1 {
			return s.iteOfAssign(st.List[0])
		}
	case *ast.AssignStmt:
		if st.Tok == token.ASSIGN && len(st.Lhs) == 1 && len(st.Rhs) == 1 {
			if id, ok := st.Lhs[0].(*ast.Ident); ok {
				t := s.loc[id.Name]
				return id.Name, s.tr(st.Rhs[0], t).ex, true
			}
		}
	case *ast.IfStmt:
		if st.Init == nil && st.Else != nil {
			c := s.tr(st.Cond, 0)
			v1, a, ok1 := s.iteOfAssign(st.Body)
			v2, b, ok2 := s.iteOfAssign(st.Else)
			if ok1 && ok2 && v1 == v2 {
				return v1, "(.ite " + c.ex + " " + a + " " + b + ")", true
			}
		}
	}
	return "", "", false
}

// mutated: names assigned with anything but their defining :=
func mutated(body *ast.BlockStmt) map[string]bool {
	m := map[string]bool{}
	ast.Inspect(body, func(n ast.Node) bool {
		switch n := n.(type) {
		case *ast.AssignStmt:
			if n.Tok != token.DEFINE {
				for _, l := range n.Lhs {
					if id, ok := l.(*ast.Ident); ok {
						m[id.Name] = true
					}
				}
			}
		case *ast.IncDecStmt:
			if id, ok := n.X.(*ast.Ident); ok {
				m[id.Name] = true
			}
		}
		return true
	})
	return m
}

// bind processes the straight-line prefix statements: `x := e` (inlined unless mutated later),
// `var x T`, and if/else trees that only assign one variable.
func (s *scope) bind(st ast.Stmt, mut map[string]bool) bool {
	switch st := st.(type) {
	case *ast.AssignStmt:
		if st.Tok == token.DEFINE && len(st.Lhs) == 1 && len(st.Rhs) == 1 {
			id := st.Lhs[0].(*ast.Ident)
			v := s.tr(st.Rhs[0], 0)
			if v.tag == 0 {
				v.tag = 63 // untyped integer constant defaults to int
			}
			if mut[id.Name] {
				s.addLoc(id.Name, v.tag)
			} else {
				s.inl[id.Name] = v
			}
			return true
		}
	case *ast.DeclStmt:
		if gd, ok := st.Decl.(*ast.GenDecl); ok && gd.Tok == token.VAR {
			for _, sp := range gd.Specs {
				vs := sp.(*ast.ValueSpec)
				for _, n := range vs.Names {
					s.addLoc(n.Name, tagOfType(typeText(vs.Type)))
				}
			}
			return true
		}
	case *ast.IfStmt:
		if name, ex, ok := s.iteOfAssign(st); ok {
			s.inl[name] = val{ex, s.loc[name]}
			delete(s.loc, name)
			return true
		}
	}
	return false
}

// ---------------------------------------------------------------- output

var out bytes.Buffer

func def(name, ty, body string) { fmt.Fprintf(&out, "def %s : %s :=\n  %s\n\n", name, ty, body) }

func retExpr(s *scope, st ast.Stmt) string {
	if r, ok := st.(*ast.ReturnStmt); ok && len(r.Results) == 1 {
		return s.tr(r.Results[0], 0).ex
	}
	if b, ok := st.(*ast.BlockStmt); ok && len(b.List) == 1 {
		return retExpr(s, b.List[0])
	}
	return unknown("return expected")
}

// if-chain of returns (optionally followed by a final return) as an ite tree
func retTree(s *scope, stmts []ast.Stmt) string {
	if len(stmts) == 0 {
		return unknown("missing return")
	}
	switch st := stmts[0].(type) {
	case *ast.ReturnStmt:
		return retExpr(s, st)
	case *ast.IfStmt:
		c := s.tr(st.Cond, 0)
		t := retTree(s, st.Body.List)
		var e string
		if st.Else != nil {
			switch el := st.Else.(type) {
			case *ast.BlockStmt:
				e = retTree(s, el.List)
			default:
				e = retTree(s, []ast.Stmt{el})
			}
		} else {
			e = retTree(s, stmts[1:])
		}
		return "(.ite " + c.ex + " " + t + " " + e + ")"
	}
	return unknown("statement in return tree")
}

// prefix binds, then hands the remaining statements to k
func withBody(name string, k func(s *scope, rest []ast.Stmt)) {
	fd := funcs[name]
	if fd == nil {
		def("missing_"+strings.ReplaceAll(name, ".", "_"), "HLL.Src.Ex", unknown("function "+name+" not found"))
		k(&scope{params: map[string]int{}, ptag: map[string]int{}, inl: map[string]val{}, loc: map[string]int{}, locName: map[string]string{}}, nil)
		return
	}
	s := newScope(fd)
	mut := mutated(fd.Body)
	i := 0
	for i < len(fd.Body.List) && s.bind(fd.Body.List[i], mut) {
		i++
	}
	k(s, fd.Body.List[i:])
}

func main() {
	repo := flag.String("repo", "/repo", "repository root")
	outPath := flag.String("out", "", "output Lean file")
	flag.Parse()
	dir := filepath.Join(*repo, "util", "hll")
	collect(parse(filepath.Join(dir, "RegisterSet.go")))
	collect(parse(filepath.Join(dir, "HyperLogLog.go")))
	collect(parse(filepath.Join(dir, "MurmurHash.go")))

	fmt.Fprintf(&out, "-- generated by xlate/c14 from %s/util/hll — do not edit\nimport Golib.HLL.SrcProg\nimport Golib.HLL.SrcHash\nimport Golib.HLL.SrcObj\n\nnamespace Gen.C14\nopen HLL.Src\n\n", "<repo>")

	// constants
	for _, c := range []string{"LOG2_BITS_PER_WORD", "REGISTER_SIZE"} {
		if v, ok := consts[c]; ok {
			def(c, "Nat", fmt.Sprint(v))
		} else {
			def(c, "Nat", "0 -- constant not found")
		}
	}
	// clz table
	tbl := "[]"
	if g, ok := globals["clzLookup"]; ok && len(g.Values) == 1 {
		if cl, ok := g.Values[0].(*ast.CompositeLit); ok {
			var xs []string
			for _, e := range cl.Elts {
				if bl, ok := e.(*ast.BasicLit); ok && bl.Kind == token.INT {
					v, _ := strconv.ParseUint(bl.Value, 0, 64)
					xs = append(xs, fmt.Sprint(v))
				} else {
					xs = append(xs, "0 /- not a literal -/")
				}
			}
			tbl = "[" + strings.Join(xs, ", ") + "]"
		}
	}
	def("clzLookup", "List Nat", tbl)

	one := func(lean, fn string) {
		withBody(fn, func(s *scope, rest []ast.Stmt) { def(lean, "Ex", retTree(s, rest)) })
	}
	one("clz32", "clz32")
	one("get", "RegisterSet.Get")
	one("getBits", "getBits")
	one("sizeForCount", "getSizeForCount")
	one("linearCounting", "linearCounting")
	one("round", "Round")
	one("validateLog2m", "validateLog2m")

	// Set: this.M[i] = v
	withBody("RegisterSet.Set", func(s *scope, rest []ast.Stmt) {
		if len(rest) == 1 {
			if as, ok := rest[0].(*ast.AssignStmt); ok && as.Tok == token.ASSIGN && len(as.Lhs) == 1 {
				if ix, ok := as.Lhs[0].(*ast.IndexExpr); ok {
					def("setTarget", "Ex", s.tr(ix.X, 0).ex)
					def("setIdx", "Ex", s.tr(ix.Index, 63).ex)
					def("setVal", "Ex", s.tr(as.Rhs[0], 32).ex)
					return
				}
			}
		}
		def("setTarget", "Ex", unknown("Set: shape"))
		def("setIdx", "Ex", unknown("Set: shape"))
		def("setVal", "Ex", unknown("Set: shape"))
	})

	// UpdateIfGreater: if cond { this.M[i] = v; return true } else { return false }
	withBody("RegisterSet.UpdateIfGreater", func(s *scope, rest []ast.Stmt) {
		okShape := false
		if len(rest) == 1 {
			if is, ok := rest[0].(*ast.IfStmt); ok && is.Else != nil && len(is.Body.List) == 2 {
				as, ok1 := is.Body.List[0].(*ast.AssignStmt)
				if ok1 && as.Tok == token.ASSIGN && len(as.Lhs) == 1 {
					if ix, ok := as.Lhs[0].(*ast.IndexExpr); ok {
						def("updCond", "Ex", s.tr(is.Cond, 0).ex)
						def("updTarget", "Ex", s.tr(ix.X, 0).ex)
						def("updIdx", "Ex", s.tr(ix.Index, 63).ex)
						def("updVal", "Ex", s.tr(as.Rhs[0], 32).ex)
						def("updRetThen", "Ex", retExpr(s, is.Body.List[1]))
						def("updRetElse", "Ex", retExpr(s, is.Else))
						okShape = true
					}
				}
			}
		}
		if !okShape {
			for _, n := range []string{"updCond", "updTarget", "updIdx", "updVal", "updRetThen", "updRetElse"} {
				def(n, "Ex", unknown("UpdateIfGreater: shape"))
			}
		}
	})

	// RegisterSet.Merge: for bucket … { word := 0; for j … { mask; thisVal; thatVal; if thisVal < thatVal { word |= thatVal } else { word |= thisVal } }; this.M[bucket] = word }
	func() {
		names := []string{"mergeOuterBound", "mergeInnerBound", "mergeInit", "mergeCond", "mergeThen", "mergeElse", "mergeStoreIdx", "mergeStoreVal"}
		fd := funcs["RegisterSet.Merge"]
		bad := func(why string) {
			for _, n := range names {
				def(n, "Ex", unknown("Merge: "+why))
			}
		}
		if fd == nil || len(fd.Body.List) != 1 {
			bad("body")
			return
		}
		outer, ok := fd.Body.List[0].(*ast.ForStmt)
		if !ok || len(outer.Body.List) != 3 {
			bad("outer loop")
			return
		}
		s := newScope(fd)
		if as, ok := outer.Init.(*ast.AssignStmt); ok && len(as.Lhs) == 1 {
			s.addLoc(as.Lhs[0].(*ast.Ident).Name, 63)
		}
		mut := mutated(fd.Body)
		init, ok0 := outer.Body.List[0].(*ast.AssignStmt)
		inner, ok1 := outer.Body.List[1].(*ast.ForStmt)
		store, ok2 := outer.Body.List[2].(*ast.AssignStmt)
		if !ok0 || !ok1 || !ok2 || init.Tok != token.DEFINE || store.Tok != token.ASSIGN {
			bad("outer body")
			return
		}
		accName := init.Lhs[0].(*ast.Ident).Name
		acc := s.tr(init.Rhs[0], 0)
		s.addLoc(accName, acc.tag)
		if as, ok := inner.Init.(*ast.AssignStmt); ok && len(as.Lhs) == 1 {
			s.addLoc(as.Lhs[0].(*ast.Ident).Name, 63)
		}
		i := 0
		for i < len(inner.Body.List) && s.bind(inner.Body.List[i], mut) {
			i++
		}
		if i != len(inner.Body.List)-1 {
			bad("inner body")
			return
		}
		is, ok := inner.Body.List[i].(*ast.IfStmt)
		if !ok || is.Else == nil {
			bad("inner if")
			return
		}
		orInto := func(st ast.Stmt) string {
			if b, ok := st.(*ast.BlockStmt); ok && len(b.List) == 1 {
				if as, ok := b.List[0].(*ast.AssignStmt); ok && as.Tok == token.OR_ASSIGN {
					if id, ok := as.Lhs[0].(*ast.Ident); ok && id.Name == accName {
						return s.tr(as.Rhs[0], 32).ex
					}
				}
			}
			return unknown("Merge: branch is not `acc |= e`")
		}
		def("mergeOuterBound", "Ex", s.tr(outer.Cond, 0).ex)
		def("mergeInnerBound", "Ex", s.tr(inner.Cond, 0).ex)
		def("mergeInit", "Ex", acc.ex)
		def("mergeCond", "Ex", s.tr(is.Cond, 0).ex)
		def("mergeThen", "Ex", orInto(is.Body))
		def("mergeElse", "Ex", orInto(is.Else))
		if ix, ok := store.Lhs[0].(*ast.IndexExpr); ok {
			def("mergeStoreIdx", "Ex", s.tr(ix.Index, 63).ex)
		} else {
			def("mergeStoreIdx", "Ex", unknown("Merge: store"))
		}
		def("mergeStoreVal", "Ex", s.tr(store.Rhs[0], 32).ex)
	}()

	// offerHashed: return this.registerSet.UpdateIfGreater(j, r)
	withBody("HyperLogLog.offerHashed", func(s *scope, rest []ast.Stmt) {
		if len(rest) == 1 {
			if r, ok := rest[0].(*ast.ReturnStmt); ok && len(r.Results) == 1 {
				if c, ok := r.Results[0].(*ast.CallExpr); ok && len(c.Args) == 2 {
					if p, _, ok := s.recvPath(c.Fun); ok {
						def("offerCallee", "String", q(p))
						def("offerIdx", "Ex", s.tr(c.Args[0], 32).ex)
						def("offerRank", "Ex", s.tr(c.Args[1], 32).ex)
						return
					}
				}
			}
		}
		def("offerCallee", "String", q("?"))
		def("offerIdx", "Ex", unknown("offerHashed: shape"))
		def("offerRank", "Ex", unknown("offerHashed: shape"))
	})
	one("offer", "HyperLogLog.Offer")
	one("offerLong", "HyperLogLog.OfferLong")

	// Cardinality: loop term, zero test, final branch
	func() {
		names := []string{"cardLoopBound", "cardTerm", "cardZeroTest", "cardCond", "cardThen", "cardElse"}
		fd := funcs["HyperLogLog.Cardinality"]
		// every name is emitted exactly once (a shape that is recognised only in part must give a failing
		// obligation, not a Lean file that does not compile)
		vals := map[string]string{}
		defer func() {
			for _, n := range names {
				v, ok := vals[n]
				if !ok {
					v = unknown("Cardinality: not reached")
				}
				def(n, "Ex", v)
			}
		}()
		bad := func(why string) {
			for _, n := range names {
				vals[n] = unknown("Cardinality: " + why)
			}
		}
		if fd == nil {
			bad("not found")
			return
		}
		s := newScope(fd)
		mut := mutated(fd.Body)
		i := 0
		for i < len(fd.Body.List) && s.bind(fd.Body.List[i], mut) {
			i++
		}
		if i >= len(fd.Body.List) {
			bad("no loop")
			return
		}
		loop, ok := fd.Body.List[i].(*ast.ForStmt)
		if !ok {
			bad("loop expected")
			return
		}
		if as, ok := loop.Init.(*ast.AssignStmt); ok && len(as.Lhs) == 1 {
			s.addLoc(as.Lhs[0].(*ast.Ident).Name, 63)
		}
		vals["cardLoopBound"] = (s.tr(loop.Cond, 0).ex)
		term, zero := unknown("Cardinality: no `registerSum += …`"), unknown("Cardinality: no zero test")
		for _, st := range loop.Body.List {
			if s.bind(st, mut) {
				continue
			}
			switch st := st.(type) {
			case *ast.AssignStmt:
				if st.Tok == token.ADD_ASSIGN {
					term = "(.bin .add 1 " + s.tr(st.Lhs[0], 0).ex + " " + s.tr(st.Rhs[0], 1).ex + ")"
				}
			case *ast.IfStmt:
				if len(st.Body.List) == 1 {
					if inc, ok := st.Body.List[0].(*ast.IncDecStmt); ok && inc.Tok == token.INC {
						zero = "(.ite " + s.tr(st.Cond, 0).ex + " (.bin .add 1 " + s.tr(inc.X, 0).ex + " (.lit 1)) " + s.tr(inc.X, 0).ex + ")"
					}
				}
			}
		}
		vals["cardTerm"] = (term)
		vals["cardZeroTest"] = (zero)
		i++
		for i < len(fd.Body.List) && s.bind(fd.Body.List[i], mut) {
			i++
		}
		if i != len(fd.Body.List)-1 {
			bad("tail")
			return
		}
		is, ok := fd.Body.List[i].(*ast.IfStmt)
		if !ok || is.Else == nil {
			vals["cardCond"] = (unknown("Cardinality: final if"))
			vals["cardThen"] = (unknown("Cardinality: final if"))
			vals["cardElse"] = (unknown("Cardinality: final if"))
			return
		}
		vals["cardCond"] = (s.tr(is.Cond, 0).ex)
		vals["cardThen"] = (retExpr(s, is.Body))
		vals["cardElse"] = (retExpr(s, is.Else))
	}()

	// getAlphaMM: switch p { case k: return e … default: return e }
	func() {
		fd := funcs["HyperLogLog.getAlphaMM"]
		if fd == nil || len(fd.Body.List) != 1 {
			def("alphaMM", "Ex", unknown("getAlphaMM: body"))
			return
		}
		sw, ok := fd.Body.List[0].(*ast.SwitchStmt)
		if !ok || sw.Tag == nil {
			def("alphaMM", "Ex", unknown("getAlphaMM: switch"))
			return
		}
		s := newScope(fd)
		tag := s.tr(sw.Tag, 0)
		dflt := unknown("getAlphaMM: no default")
		type arm struct{ c, e string }
		var arms []arm
		for _, cc := range sw.Body.List {
			cl := cc.(*ast.CaseClause)
			e := retTree(s, cl.Body)
			if cl.List == nil {
				dflt = e
				continue
			}
			for _, k := range cl.List {
				arms = append(arms, arm{fmt.Sprintf("(.bin .eq %d %s %s)", tag.tag, tag.ex, s.tr(k, tag.tag).ex), e})
			}
		}
		ex := dflt
		for i := len(arms) - 1; i >= 0; i-- {
			ex = "(.ite " + arms[i].c + " " + arms[i].e + " " + ex + ")"
		}
		def("alphaMM", "Ex", ex)
	}()

	// call skeletons of the byte form and of Merge/AddAll: statements printed with normalised
	// identifiers (receiver, parameters and locals by position), comments dropped
	for _, fn := range []struct{ lean, name string }{
		{"getBytesBody", "HyperLogLog.GetBytes"}, {"buildBody", "BuildHyperLogLog"},
		{"mergeBody", "HyperLogLog.Merge"}, {"addAllBody", "HyperLogLog.AddAll"},
		{"newBody", "NewHyperLogLog"}, {"newIntBody", "NewHyperLogLogInt"},
		{"newRegisterSetInitBody", "NewRegisterSetInit"},
	} {
		def(fn.lean, "List String", skeleton(funcs[fn.name]))
	}

	// the hash: straight-line bodies, executed symbolically (re-assignments become nested expressions)
	def("murmurLong", "Ex", symExec(funcs["MurmurHashLong"]))
	def("murmur32", "Ex", symExec(funcs["MurmurHash"]))

	def("mergeProg", "List MStep", objProg(funcs["HyperLogLog.Merge"]))
	def("addAllProg", "List MStep", objProg(funcs["HyperLogLog.AddAll"]))

	def("getBytesProg", "List WStep", writerProg(funcs["HyperLogLog.GetBytes"]))
	def("buildProg", "List RStep", readerProg(funcs["BuildHyperLogLog"]))

	gq := make([]string, len(guards))
	for i, g := range guards {
		gq[i] = q(g)
	}
	def("countGuards", "List String", "["+strings.Join(gq, ", ")+"]")

	fmt.Fprintf(&out, "end Gen.C14\n")
	if *outPath == "" {
		os.Stdout.Write(out.Bytes())
		return
	}
	if err := os.WriteFile(*outPath, out.Bytes(), 0o644); err != nil {
		fmt.Fprintln(os.Stderr, err)
		os.Exit(1)
	}
}

// input-count guards (`x.CheckCount(count, minBytes)` as a statement of its own) found in the
// skeleton functions: they only reject input that could not be read anyway, so they are not part
// of the call skeleton; they are listed separately ("Func: stmt") and have their own obligation.
var guards []string

func isCountGuard(st ast.Stmt) bool {
	es, ok := st.(*ast.ExprStmt)
	if !ok {
		return false
	}
	c, ok := es.X.(*ast.CallExpr)
	if !ok {
		return false
	}
	sel, ok := c.Fun.(*ast.SelectorExpr)
	return ok && sel.Sel.Name == "CheckCount"
}

// skeleton prints every top-level statement of the body on one line with identifiers renamed:
// receiver → recv, parameters → p0…, locals → v0… (in order of definition).
func skeleton(fd *ast.FuncDecl) string {
	if fd == nil {
		return "[" + q("function not found") + "]"
	}
	var qs []string
	for _, l := range skeletonLines(fd) {
		qs = append(qs, q(l))
	}
	return "[" + strings.Join(qs, ",\n   ") + "]"
}

// skeletonLines: the normalised statements (count guards taken out)
func skeletonLines(fd *ast.FuncDecl) []string {
	ren := map[string]string{}
	if fd.Recv != nil && len(fd.Recv.List) == 1 && len(fd.Recv.List[0].Names) == 1 {
		ren[fd.Recv.List[0].Names[0].Name] = "recv"
	}
	i := 0
	for _, fl := range fd.Type.Params.List {
		for _, n := range fl.Names {
			ren[n.Name] = fmt.Sprintf("p%d", i)
			i++
		}
	}
	nloc := 0
	ast.Inspect(fd.Body, func(n ast.Node) bool {
		switch n := n.(type) {
		case *ast.AssignStmt:
			if n.Tok == token.DEFINE {
				for _, l := range n.Lhs {
					if id, ok := l.(*ast.Ident); ok && id.Name != "_" {
						if _, seen := ren[id.Name]; !seen {
							ren[id.Name] = fmt.Sprintf("v%d", nloc)
							nloc++
						}
					}
				}
			}
		case *ast.RangeStmt:
			if n.Tok == token.DEFINE {
				for _, l := range []ast.Expr{n.Key, n.Value} {
					if id, ok := l.(*ast.Ident); ok && id.Name != "_" {
						if _, seen := ren[id.Name]; !seen {
							ren[id.Name] = fmt.Sprintf("v%d", nloc)
							nloc++
						}
					}
				}
			}
		}
		return true
	})
	// rename in a copy of the text: print each statement, then substitute identifiers token-wise
	var lines []string
	for _, st := range fd.Body.List {
		var b bytes.Buffer
		printer.Fprint(&b, fset, st)
		txt := b.String()
		// drop comments and normalise whitespace
		var keep []string
		for _, ln := range strings.Split(txt, "\n") {
			if k := strings.Index(ln, "//"); k >= 0 {
				ln = ln[:k]
			}
			ln = strings.TrimSpace(ln)
			if ln != "" {
				keep = append(keep, ln)
			}
		}
		txt = strings.Join(keep, "; ")
		if isCountGuard(st) {
			guards = append(guards, fd.Name.Name+": "+renameIdents(txt, ren))
			continue
		}
		lines = append(lines, renameIdents(txt, ren))
	}
	return lines
}

func renameIdents(src string, ren map[string]string) string {
	var b strings.Builder
	i := 0
	isId := func(c byte) bool { return c == '_' || c >= 'a' && c <= 'z' || c >= 'A' && c <= 'Z' || c >= '0' && c <= '9' }
	for i < len(src) {
		c := src[i]
		if c == '"' { // string literal: copy verbatim
			j := i + 1
			for j < len(src) && src[j] != '"' {
				if src[j] == '\\' {
					j++
				}
				j++
			}
			if j >= len(src) {
				j = len(src) - 1
			}
			b.WriteString(src[i : j+1])
			i = j + 1
			continue
		}
		if isId(c) && !(c >= '0' && c <= '9') {
			j := i
			for j < len(src) && isId(src[j]) {
				j++
			}
			w := src[i:j]
			// a selector's field name (preceded by '.') is not a local
			if i > 0 && src[i-1] == '.' {
				b.WriteString(w)
			} else if r, ok := ren[w]; ok {
				b.WriteString(r)
			} else {
				b.WriteString(w)
			}
			i = j
			continue
		}
		if isId(c) { // number
			j := i
			for j < len(src) && (isId(src[j]) || src[j] == '.') {
				j++
			}
			b.WriteString(src[i:j])
			i = j
			continue
		}
		b.WriteByte(c)
		i++
	}
	return b.String()
}

// ---------------------------------------------------------------- byte-form programs (interpreted in Lean)

// localNames: receiver → recv, parameters → p0…, locals → v0… (order of definition), as in skeleton
func localNames(fd *ast.FuncDecl) map[string]string {
	ren := map[string]string{}
	i := 0
	for _, fl := range fd.Type.Params.List {
		for _, n := range fl.Names {
			ren[n.Name] = fmt.Sprintf("p%d", i)
			i++
		}
	}
	nloc := 0
	add := func(e ast.Expr) {
		if id, ok := e.(*ast.Ident); ok && id.Name != "_" {
			if _, seen := ren[id.Name]; !seen {
				ren[id.Name] = fmt.Sprintf("v%d", nloc)
				nloc++
			}
		}
	}
	ast.Inspect(fd.Body, func(n ast.Node) bool {
		switch n := n.(type) {
		case *ast.AssignStmt:
			if n.Tok == token.DEFINE {
				for _, l := range n.Lhs {
					add(l)
				}
			}
		case *ast.RangeStmt:
			if n.Tok == token.DEFINE {
				if n.Key != nil {
					add(n.Key)
				}
				if n.Value != nil {
					add(n.Value)
				}
			}
		}
		return true
	})
	return ren
}

// method call x.M(args) on a local x: returns (canonical x, M, args)
func localCall(e ast.Expr, ren map[string]string) (string, string, []ast.Expr, bool) {
	c, ok := e.(*ast.CallExpr)
	if !ok {
		return "", "", nil, false
	}
	sel, ok := c.Fun.(*ast.SelectorExpr)
	if !ok {
		return "", "", nil, false
	}
	id, ok := sel.X.(*ast.Ident)
	if !ok {
		return "", "", nil, false
	}
	r, ok := ren[id.Name]
	if !ok || !strings.HasPrefix(r, "v") {
		return "", "", nil, false
	}
	return r, sel.Sel.Name, c.Args, true
}

func isConv(e ast.Expr, ty string) (ast.Expr, bool) {
	c, ok := e.(*ast.CallExpr)
	if !ok || len(c.Args) != 1 {
		return nil, false
	}
	id, ok := c.Fun.(*ast.Ident)
	if !ok || id.Name != ty {
		return nil, false
	}
	return c.Args[0], true
}

func writerProg(fd *ast.FuncDecl) string {
	if fd == nil {
		return "[.unknown " + q("GetBytes not found") + "]"
	}
	ren := localNames(fd)
	s := newScope(fd)
	for name, r := range ren {
		if strings.HasPrefix(r, "v") {
			s.loc[name] = 32
			s.locName[name] = r
		}
	}
	var steps []string
	unk := func(st ast.Stmt) { steps = append(steps, ".unknown "+q(typeText2(st))) }
	for _, st := range fd.Body.List {
		switch st := st.(type) {
		case *ast.AssignStmt:
			// v := io.NewDataOutputX()
			if st.Tok == token.DEFINE && len(st.Lhs) == 1 && len(st.Rhs) == 1 {
				if c, ok := st.Rhs[0].(*ast.CallExpr); ok && len(c.Args) == 0 && typeText(c.Fun) == "io.NewDataOutputX" {
					steps = append(steps, ".newOut "+q(ren[st.Lhs[0].(*ast.Ident).Name]))
					continue
				}
			}
			unk(st)
		case *ast.ExprStmt:
			if out, m, args, ok := localCall(st.X, ren); ok && m == "WriteInt" && len(args) == 1 {
				if _, ok := isConv(args[0], "int32"); ok {
					steps = append(steps, ".writeInt "+q(out)+" "+s.tr(args[0], 0).ex)
					continue
				}
			}
			unk(st)
		case *ast.RangeStmt:
			// for _, x := range recv.path() { out.WriteInt(int32(e)) }
			okShape := false
			if st.Tok == token.DEFINE && st.Value != nil && len(st.Body.List) == 1 {
				if key, ok := st.Key.(*ast.Ident); ok && key.Name == "_" {
					if cc, ok := st.X.(*ast.CallExpr); ok && len(cc.Args) == 0 {
						if path, _, ok := s.recvPath(cc.Fun); ok {
							if es, ok := st.Body.List[0].(*ast.ExprStmt); ok {
								if out, m, args, ok := localCall(es.X, ren); ok && m == "WriteInt" && len(args) == 1 {
									if _, ok := isConv(args[0], "int32"); ok {
										x := ren[st.Value.(*ast.Ident).Name]
										steps = append(steps, ".forWriteInt "+q(out)+" "+q(path)+" "+q(x)+" "+s.tr(args[0], 0).ex)
										okShape = true
									}
								}
							}
						}
					}
				}
			}
			if !okShape {
				unk(st)
			}
		case *ast.ReturnStmt:
			if len(st.Results) == 1 {
				if out, m, args, ok := localCall(st.Results[0], ren); ok && m == "ToByteArray" && len(args) == 0 {
					steps = append(steps, ".retBytes "+q(out))
					continue
				}
			}
			unk(st)
		default:
			unk(st)
		}
	}
	return "[" + strings.Join(steps, ",\n   ") + "]"
}

func typeText2(n ast.Node) string {
	var b bytes.Buffer
	printer.Fprint(&b, fset, n)
	return strings.Join(strings.Fields(b.String()), " ")
}

func readerProg(fd *ast.FuncDecl) string {
	if fd == nil {
		return "[.unknown " + q("BuildHyperLogLog not found") + "]"
	}
	ren := localNames(fd)
	s := newScope(fd)
	var steps []string
	unk := func(st ast.Stmt) { steps = append(steps, ".unknown "+q(typeText2(st))) }
	local := func(e ast.Expr) (string, bool) {
		if id, ok := e.(*ast.Ident); ok {
			if r, ok := ren[id.Name]; ok && strings.HasPrefix(r, "v") {
				return r, true
			}
		}
		return "", false
	}
	// x.ReadInt() on a local input
	readInt := func(e ast.Expr) (string, bool) {
		in, m, args, ok := localCall(e, ren)
		return in, ok && m == "ReadInt" && len(args) == 0
	}
	for _, st := range fd.Body.List {
		if isCountGuard(st) {
			continue // listed in countGuards, with its own obligation
		}
		switch st := st.(type) {
		case *ast.AssignStmt:
			if st.Tok == token.DEFINE && len(st.Lhs) == 1 && len(st.Rhs) == 1 {
				v := ren[st.Lhs[0].(*ast.Ident).Name]
				rhs := st.Rhs[0]
				if c, ok := rhs.(*ast.CallExpr); ok && len(c.Args) == 1 && typeText(c.Fun) == "io.NewDataInputX" {
					steps = append(steps, ".newIn "+q(v)+" "+s.tr(c.Args[0], 0).ex)
					continue
				}
				if inner, ok := isConv(rhs, "uint32"); ok {
					if in, ok := readInt(inner); ok {
						steps = append(steps, ".readU32 "+q(v)+" "+q(in))
						continue
					}
				}
				if in, ok := readInt(rhs); ok {
					steps = append(steps, ".readI32 "+q(v)+" "+q(in))
					continue
				}
				if c, ok := rhs.(*ast.CallExpr); ok && len(c.Args) == 2 && typeText(c.Fun) == "make" && typeText(c.Args[0]) == "[]uint32" {
					if cnt, ok := local(c.Args[1]); ok {
						steps = append(steps, ".makeU32 "+q(v)+" "+q(cnt))
						continue
					}
				}
			}
			unk(st)
		case *ast.ForStmt:
			// for i := 0; i < int(cnt); i++ { arr[i] = uint32(in.ReadInt()) }
			okShape := false
			init, ok1 := st.Init.(*ast.AssignStmt)
			cond, ok2 := st.Cond.(*ast.BinaryExpr)
			post, ok3 := st.Post.(*ast.IncDecStmt)
			if ok1 && ok2 && ok3 && init.Tok == token.DEFINE && len(init.Lhs) == 1 && typeText(init.Rhs[0]) == "0" &&
				cond.Op == token.LSS && post.Tok == token.INC && len(st.Body.List) == 1 {
				iv := typeText(init.Lhs[0])
				if typeText(cond.X) == iv && typeText(post.X) == iv {
					if cntE, ok := isConv(cond.Y, "int"); ok {
						if cnt, ok := local(cntE); ok {
							if as, ok := st.Body.List[0].(*ast.AssignStmt); ok && as.Tok == token.ASSIGN && len(as.Lhs) == 1 {
								if ix, ok := as.Lhs[0].(*ast.IndexExpr); ok && typeText(ix.Index) == iv {
									if arr, ok := local(ix.X); ok {
										if inner, ok := isConv(as.Rhs[0], "uint32"); ok {
											if in, ok := readInt(inner); ok {
												steps = append(steps, ".fillU32 "+q(arr)+" "+q(cnt)+" "+q(in))
												okShape = true
											}
										}
									}
								}
							}
						}
					}
				}
			}
			if !okShape {
				unk(st)
			}
		case *ast.ReturnStmt:
			// return NewHyperLogLog(l, NewRegisterSetInit(int(1<<l), arr))
			okShape := false
			if len(st.Results) == 1 {
				if c, ok := st.Results[0].(*ast.CallExpr); ok && len(c.Args) == 2 && typeText(c.Fun) == "NewHyperLogLog" {
					if l, ok := local(c.Args[0]); ok {
						if c2, ok := c.Args[1].(*ast.CallExpr); ok && len(c2.Args) == 2 && typeText(c2.Fun) == "NewRegisterSetInit" {
							if arr, ok := local(c2.Args[1]); ok {
								want := "int(1 << " + typeText(c.Args[0]) + ")"
								if typeText2(c2.Args[0]) == want || typeText(c2.Args[0]) == "int(1<<"+typeText(c.Args[0])+")" {
									steps = append(steps, ".retNew "+q(l)+" "+q(arr))
									okShape = true
								}
							}
						}
					}
				}
			}
			if !okShape {
				unk(st)
			}
		default:
			unk(st)
		}
	}
	return "[" + strings.Join(steps, ",\n   ") + "]"
}

// ---------------------------------------------------------------- straight-line symbolic execution

var assignOp = map[token.Token]token.Token{
	token.ADD_ASSIGN: token.ADD, token.SUB_ASSIGN: token.SUB, token.MUL_ASSIGN: token.MUL, token.QUO_ASSIGN: token.QUO,
	token.REM_ASSIGN: token.REM, token.AND_ASSIGN: token.AND, token.OR_ASSIGN: token.OR, token.XOR_ASSIGN: token.XOR,
	token.SHL_ASSIGN: token.SHL, token.SHR_ASSIGN: token.SHR, token.AND_NOT_ASSIGN: token.AND_NOT,
}

// symExec: a body of `x := e`, `x = e`, `x op= e` and a final `return e`; every variable is
// replaced by its current value, so the result is one expression over the parameters.
func symExec(fd *ast.FuncDecl) string {
	if fd == nil {
		return unknown("function not found")
	}
	s := newScope(fd)
	for _, st := range fd.Body.List {
		switch st := st.(type) {
		case *ast.AssignStmt:
			if len(st.Lhs) != 1 || len(st.Rhs) != 1 {
				return unknown("assignment shape")
			}
			id, ok := st.Lhs[0].(*ast.Ident)
			if !ok {
				return unknown("assignment target")
			}
			switch {
			case st.Tok == token.DEFINE:
				v := s.tr(st.Rhs[0], 0)
				if v.tag == 0 {
					v.tag = 63
				}
				s.inl[id.Name] = v
			case st.Tok == token.ASSIGN:
				old, ok := s.inl[id.Name]
				if !ok {
					return unknown("assignment to an unknown variable")
				}
				v := s.tr(st.Rhs[0], old.tag)
				v.tag = old.tag
				s.inl[id.Name] = v
			default:
				op, ok := assignOp[st.Tok]
				old, ok2 := s.inl[id.Name]
				if !ok || !ok2 {
					return unknown("assignment operator")
				}
				v := s.tr(&ast.BinaryExpr{X: id, Op: op, Y: st.Rhs[0]}, old.tag)
				v.tag = old.tag
				s.inl[id.Name] = v
			}
		case *ast.ReturnStmt:
			if len(st.Results) != 1 {
				return unknown("return shape")
			}
			return s.tr(st.Results[0], 0).ex
		default:
			return unknown("not straight-line: " + typeText2(st))
		}
	}
	return unknown("no return")
}

// ---------------------------------------------------------------- counter-level methods (interpreted in Lean)

var (
	reNewLike   = regexp.MustCompile(`^(v\d+) := NewHyperLogLog\(recv\.log2m, NewRegisterSet\(recv\.registerSet\.Count\)\)$`)
	reAddAll    = regexp.MustCompile(`^(v\d+)\.AddAll\((recv|v\d+)\)$`)
	reRetIfNil  = regexp.MustCompile(`^if (p\d+) == nil \{; return (v\d+); \}$`)
	reForAlias  = regexp.MustCompile(`^for _, (v\d+) := range (p\d+) \{; (v\d+) := (v\d+); (v\d+)\.AddAll\((v\d+)\); \}$`)
	reForDirect = regexp.MustCompile(`^for _, (v\d+) := range (p\d+) \{; (v\d+)\.AddAll\((v\d+)\); \}$`)
	reRet       = regexp.MustCompile(`^return (v\d+)$`)
	rePanicSize = regexp.MustCompile(`^if recv\.Sizeof\(\) != (p\d+)\.Sizeof\(\) \{; panic\(".*"\); \}$`)
	reMergeRegs = regexp.MustCompile(`^recv\.registerSet\.Merge\((p\d+)\.registerSet\)$`)
)

// objProg maps every (normalised) statement of Merge / AddAll to a step of HLL.Src.MStep
func objProg(fd *ast.FuncDecl) string {
	if fd == nil {
		return "[.unknown " + q("function not found") + "]"
	}
	sk := skeletonLines(fd)
	var steps []string
	for _, ln := range sk {
		switch {
		case reNewLike.MatchString(ln):
			m := reNewLike.FindStringSubmatch(ln)
			steps = append(steps, ".newLike "+q(m[1]))
		case reAddAll.MatchString(ln):
			m := reAddAll.FindStringSubmatch(ln)
			steps = append(steps, ".addAll "+q(m[1])+" "+q(m[2]))
		case reRetIfNil.MatchString(ln):
			m := reRetIfNil.FindStringSubmatch(ln)
			steps = append(steps, ".retIfNil "+q(m[1])+" "+q(m[2]))
		case reForAlias.MatchString(ln):
			m := reForAlias.FindStringSubmatch(ln)
			if m[4] == m[1] && m[6] == m[3] { // y := x; dst.AddAll(y)
				steps = append(steps, ".forAddAll "+q(m[2])+" "+q(m[5]))
			} else {
				steps = append(steps, ".unknown "+q(ln))
			}
		case reForDirect.MatchString(ln):
			m := reForDirect.FindStringSubmatch(ln)
			if m[4] == m[1] {
				steps = append(steps, ".forAddAll "+q(m[2])+" "+q(m[3]))
			} else {
				steps = append(steps, ".unknown "+q(ln))
			}
		case reRet.MatchString(ln):
			steps = append(steps, ".ret "+q(reRet.FindStringSubmatch(ln)[1]))
		case rePanicSize.MatchString(ln):
			steps = append(steps, ".panicUnlessSameSize "+q(rePanicSize.FindStringSubmatch(ln)[1]))
		case reMergeRegs.MatchString(ln):
			steps = append(steps, ".mergeRegisters "+q(reMergeRegs.FindStringSubmatch(ln)[1]))
		default:
			steps = append(steps, ".unknown "+q(ln))
		}
	}
	return "[" + strings.Join(steps, ",\n   ") + "]"
}
