// xlate/c19 — tie A for property C19.
//
// Reads util/dateutil/{DateTimeHelper,DateFormat}.go with go/parser and transcribes *facts* into
// Lean data (lean/Golib/Gen/C19.lean, namespace Gen.C19).  It never judges; the obligations over
// the data live in lean/Golib/Props/C19Gen.lean.  A shape it cannot read is emitted as a value
// that no obligation accepts (empty list / 0 / "?"), never skipped.
//
// Facts: the tables mdayLen and wday; the MILLIS_* constants; the body of isYun as a Lean
// function; the arguments of time.Date for the UTC base instant; the literal loop bounds, literal
// initialisers and `== literal` tests of open(); for each string helper the sequence of pieces it
// writes (date field, literal, pad function) — this carries the pad widths; per field letter the
// LPadInt width in format and the ToInt width in Parse; the letters in time.Date argument order.
package main

import (
	"flag"
	"fmt"
	"go/ast"
	"go/parser"
	"go/token"
	"os"
	"path/filepath"
	"sort"
	"strconv"
	"strings"
)

var consts = map[string]int64{}
var constExprs = map[string]ast.Expr{}

func evalConst(e ast.Expr, depth int) (int64, bool) {
	if depth > 20 {
		return 0, false
	}
	switch x := e.(type) {
	case *ast.BasicLit:
		switch x.Kind {
		case token.INT:
			v, err := strconv.ParseInt(x.Value, 0, 64)
			return v, err == nil
		case token.CHAR:
			s, err := strconv.Unquote(x.Value)
			if err != nil {
				return 0, false
			}
			r := []rune(s)
			if len(r) != 1 {
				return 0, false
			}
			return int64(r[0]), true
		}
	case *ast.Ident:
		if v, ok := consts[x.Name]; ok {
			return v, true
		}
		if ce, ok := constExprs[x.Name]; ok {
			return evalConst(ce, depth+1)
		}
	case *ast.ParenExpr:
		return evalConst(x.X, depth+1)
	case *ast.BinaryExpr:
		a, ok1 := evalConst(x.X, depth+1)
		b, ok2 := evalConst(x.Y, depth+1)
		if !ok1 || !ok2 {
			return 0, false
		}
		switch x.Op {
		case token.MUL:
			return a * b, true
		case token.ADD:
			return a + b, true
		case token.SUB:
			return a - b, true
		case token.QUO:
			if b != 0 {
				return a / b, true
			}
		}
	case *ast.SelectorExpr: // time.January …
		if id, ok := x.X.(*ast.Ident); ok && id.Name == "time" {
			months := []string{"January", "February", "March", "April", "May", "June", "July", "August", "September", "October", "November", "December"}
			for i, m := range months {
				if m == x.Sel.Name {
					return int64(i + 1), true
				}
			}
		}
	}
	return 0, false
}

func leanStr(s string) string { return strconv.Quote(s) }

func natList(xs []int64) string {
	ss := make([]string, len(xs))
	for i, x := range xs {
		if x < 0 {
			return "[]"
		}
		ss[i] = strconv.FormatInt(x, 10)
	}
	return "[" + strings.Join(ss, ", ") + "]"
}
func strList(xs []string) string {
	ss := make([]string, len(xs))
	for i, x := range xs {
		ss[i] = leanStr(x)
	}
	return "[" + strings.Join(ss, ", ") + "]"
}

// boolean/integer expression over one parameter → Lean (fully parenthesised); "" if not transcribable
func leanExpr(e ast.Expr, param string) string {
	switch x := e.(type) {
	case *ast.ParenExpr:
		return leanExpr(x.X, param)
	case *ast.BasicLit:
		if x.Kind == token.INT {
			return x.Value
		}
	case *ast.Ident:
		if x.Name == param {
			return "x"
		}
		if x.Name == "true" || x.Name == "false" {
			return x.Name
		}
		if v, ok := evalConst(x, 0); ok {
			return strconv.FormatInt(v, 10)
		}
	case *ast.UnaryExpr:
		if x.Op == token.NOT {
			if a := leanExpr(x.X, param); a != "" {
				return "(!" + a + ")"
			}
		}
	case *ast.BinaryExpr:
		a, b := leanExpr(x.X, param), leanExpr(x.Y, param)
		if a == "" || b == "" {
			return ""
		}
		op := map[token.Token]string{token.LAND: "&&", token.LOR: "||", token.EQL: "==", token.NEQ: "!=",
			token.REM: "%", token.ADD: "+", token.MUL: "*", token.QUO: "/",
			token.LSS: "<", token.LEQ: "<=", token.GTR: ">", token.GEQ: ">="}[x.Op]
		if op == "" {
			return ""
		}
		if op == "<" || op == "<=" || op == ">" || op == ">=" {
			return "(decide (" + a + " " + op + " " + b + "))"
		}
		return "(" + a + " " + op + " " + b + ")"
	}
	return ""
}

// the boolean a predicate function returns: `return C` | `if C {return true} else {return false}` | `if C {return true}; return false`
func predicateBody(fn *ast.FuncDecl) ast.Expr {
	isRet := func(s ast.Stmt, v string) bool {
		var r *ast.ReturnStmt
		switch y := s.(type) {
		case *ast.ReturnStmt:
			r = y
		case *ast.BlockStmt:
			if len(y.List) == 1 {
				r, _ = y.List[0].(*ast.ReturnStmt)
			}
		}
		if r == nil || len(r.Results) != 1 {
			return false
		}
		id, ok := r.Results[0].(*ast.Ident)
		return ok && id.Name == v
	}
	l := fn.Body.List
	if len(l) == 1 {
		if r, ok := l[0].(*ast.ReturnStmt); ok && len(r.Results) == 1 {
			return r.Results[0]
		}
		if i, ok := l[0].(*ast.IfStmt); ok && i.Init == nil && i.Else != nil && isRet(i.Body, "true") && isRet(i.Else, "false") {
			return i.Cond
		}
	}
	if len(l) == 2 {
		if i, ok := l[0].(*ast.IfStmt); ok && i.Init == nil && i.Else == nil && isRet(i.Body, "true") && isRet(l[1], "false") {
			return i.Cond
		}
	}
	return nil
}

// pieces written by a string helper: every buffer.WriteString(arg) in order, or the Sprintf format
func pieces(fn *ast.FuncDecl) []string {
	var out []string
	ast.Inspect(fn.Body, func(n ast.Node) bool {
		c, ok := n.(*ast.CallExpr)
		if !ok {
			return true
		}
		sel, ok := c.Fun.(*ast.SelectorExpr)
		if !ok {
			return true
		}
		if sel.Sel.Name == "WriteString" && len(c.Args) == 1 {
			switch a := c.Args[0].(type) {
			case *ast.BasicLit:
				if s, err := strconv.Unquote(a.Value); err == nil {
					out = append(out, "lit:"+s)
				} else {
					out = append(out, "?")
				}
			case *ast.CallExpr:
				if id, ok := a.Fun.(*ast.Ident); ok {
					out = append(out, "call:"+id.Name)
				} else {
					out = append(out, "?")
				}
			case *ast.SelectorExpr:
				out = append(out, "field:"+a.Sel.Name)
			default:
				out = append(out, "?")
			}
			return false
		}
		if sel.Sel.Name == "Sprintf" && len(c.Args) >= 1 {
			if a, ok := c.Args[0].(*ast.BasicLit); ok {
				if s, err := strconv.Unquote(a.Value); err == nil {
					out = append(out, "sprintf:"+s)
					return false
				}
			}
			out = append(out, "?")
		}
		return true
	})
	return out
}

// ---------------------------------------------------------------- helper bodies
//
// Assignments `x := (int)(A / K)` / `x = (int)(A % K)` with A a local variable or `time - this.BASE_TIME`
// and K a constant, in source order; then the outputs (WriteString arguments / the Sprintf) with the
// names of the variables passed.  The guard `if time < this.BASE_TIME { return … }` is not part of it.
func unwrapConv(e ast.Expr) ast.Expr {
	for {
		switch x := e.(type) {
		case *ast.ParenExpr:
			e = x.X
		case *ast.CallExpr: // (int)(E) or int(E)
			if len(x.Args) != 1 {
				return e
			}
			fun := x.Fun
			if p, ok := fun.(*ast.ParenExpr); ok {
				fun = p.X
			}
			if id, ok := fun.(*ast.Ident); ok && (id.Name == "int" || id.Name == "int64") {
				e = x.Args[0]
				continue
			}
			return e
		default:
			return e
		}
	}
}

func helperBody(fn *ast.FuncDecl) (string, string) {
	if fn == nil || fn.Type.Params == nil || len(fn.Type.Params.List) != 1 || len(fn.Type.Params.List[0].Names) != 1 {
		return "[]", "[.other]"
	}
	param := fn.Type.Params.List[0].Names[0].Name
	isElapsed := func(e ast.Expr) bool {
		e = unwrapConv(e)
		be, ok := e.(*ast.BinaryExpr)
		if !ok || be.Op != token.SUB {
			return false
		}
		a, ok1 := be.X.(*ast.Ident)
		sel, ok2 := be.Y.(*ast.SelectorExpr)
		return ok1 && ok2 && a.Name == param && sel.Sel.Name == "BASE_TIME"
	}
	var assigns, outs []string
	argName := func(e ast.Expr) string {
		if id, ok := unwrapConv(e).(*ast.Ident); ok {
			return id.Name
		}
		return "?"
	}
	for _, st := range fn.Body.List {
		switch x := st.(type) {
		case *ast.AssignStmt:
			if len(x.Lhs) != 1 || len(x.Rhs) != 1 {
				continue
			}
			dst, ok := x.Lhs[0].(*ast.Ident)
			if !ok {
				continue
			}
			be, ok := unwrapConv(x.Rhs[0]).(*ast.BinaryExpr)
			if !ok || (be.Op != token.QUO && be.Op != token.REM) {
				continue
			}
			k, ok := evalConst(be.Y, 0)
			if !ok || k <= 0 {
				assigns = append(assigns, fmt.Sprintf("⟨%s, false, .var \"?\", 0⟩", leanStr(dst.Name)))
				continue
			}
			src := ""
			if isElapsed(be.X) {
				src = ".elapsed"
			} else if id, ok := unwrapConv(be.X).(*ast.Ident); ok {
				src = ".var " + leanStr(id.Name)
			} else {
				src = ".var \"?\""
			}
			assigns = append(assigns, fmt.Sprintf("⟨%s, %v, %s, %d⟩", leanStr(dst.Name), be.Op == token.REM, src, k))
		}
	}
	ast.Inspect(fn.Body, func(n ast.Node) bool {
		if i, ok := n.(*ast.IfStmt); ok { // the guard for instants before the base: skip
			if be, ok := i.Cond.(*ast.BinaryExpr); ok && be.Op == token.LSS {
				return false
			}
		}
		c, ok := n.(*ast.CallExpr)
		if !ok {
			return true
		}
		sel, ok := c.Fun.(*ast.SelectorExpr)
		if !ok {
			return true
		}
		if sel.Sel.Name == "WriteString" && len(c.Args) == 1 {
			item := ".other"
			switch a := c.Args[0].(type) {
			case *ast.BasicLit:
				if str, err := strconv.Unquote(a.Value); err == nil {
					var xs []int64
					for _, r := range str {
						xs = append(xs, int64(r))
					}
					item = ".lit " + natList(xs)
				}
			case *ast.CallExpr:
				if id, ok := a.Fun.(*ast.Ident); ok && len(a.Args) == 1 && (id.Name == "mk2" || id.Name == "mk3") {
					item = "." + id.Name + " " + leanStr(argName(a.Args[0]))
				}
			case *ast.SelectorExpr: // this.dateTable[idx].date
				if a.Sel.Name == "date" {
					if ix, ok := a.X.(*ast.IndexExpr); ok {
						item = ".date " + leanStr(argName(ix.Index))
					}
				}
			}
			outs = append(outs, item)
			return false
		}
		if sel.Sel.Name == "Sprintf" && len(c.Args) >= 1 {
			item := ".other"
			if l, ok := c.Args[0].(*ast.BasicLit); ok {
				if str, err := strconv.Unquote(l.Value); err == nil {
					var xs []int64
					for _, r := range str {
						xs = append(xs, int64(r))
					}
					names := make([]string, len(c.Args)-1)
					for i, a := range c.Args[1:] {
						names[i] = argName(a)
					}
					item = ".sprintf " + natList(xs) + " " + strList(names)
				}
			}
			outs = append(outs, item)
			return false
		}
		return true
	})
	return "[" + strings.Join(assigns, ", ") + "]", "[" + strings.Join(outs, ", ") + "]"
}

// ---------------------------------------------------------------- pad functions
//
// mk2 / mk3 : func(n int) string, transcribed statement by statement into Cal.PadStmt.
// Anything that is not `switch n {case ints: return E}`, `if n < K {return E} [else {return E}]`
// or `return E` with E = [string literal +] strconv.Itoa(n) becomes `.unknown`.
func padExpr(e ast.Expr, param string) (string, bool) {
	isItoa := func(x ast.Expr) bool {
		c, ok := x.(*ast.CallExpr)
		if !ok || len(c.Args) != 1 {
			return false
		}
		sel, ok := c.Fun.(*ast.SelectorExpr)
		if !ok || sel.Sel.Name != "Itoa" {
			return false
		}
		id, ok := c.Args[0].(*ast.Ident)
		return ok && id.Name == param
	}
	if isItoa(e) {
		return "⟨[]⟩", true
	}
	if be, ok := e.(*ast.BinaryExpr); ok && be.Op == token.ADD && isItoa(be.Y) {
		if l, ok := be.X.(*ast.BasicLit); ok && l.Kind == token.STRING {
			if str, err := strconv.Unquote(l.Value); err == nil {
				var xs []int64
				for _, r := range str {
					xs = append(xs, int64(r))
				}
				return "⟨" + natList(xs) + "⟩", true
			}
		}
	}
	return "", false
}

func retExpr(s ast.Stmt, param string) (string, bool) {
	if blk, ok := s.(*ast.BlockStmt); ok {
		if len(blk.List) != 1 {
			return "", false
		}
		s = blk.List[0]
	}
	r, ok := s.(*ast.ReturnStmt)
	if !ok || len(r.Results) != 1 {
		return "", false
	}
	return padExpr(r.Results[0], param)
}

func padProgram(fn *ast.FuncDecl) string {
	if fn == nil || fn.Type.Params == nil || len(fn.Type.Params.List) != 1 || len(fn.Type.Params.List[0].Names) != 1 {
		return "[.unknown]"
	}
	param := fn.Type.Params.List[0].Names[0].Name
	var out []string
	for _, st := range fn.Body.List {
		item := ".unknown"
		switch x := st.(type) {
		case *ast.ReturnStmt:
			if e, ok := retExpr(x, param); ok {
				item = ".ret " + e
			}
		case *ast.SwitchStmt:
			if id, ok := x.Tag.(*ast.Ident); ok && id.Name == param && x.Init == nil && len(x.Body.List) == 1 {
				cc := x.Body.List[0].(*ast.CaseClause)
				var cs []int64
				good := len(cc.List) > 0 && len(cc.Body) == 1
				for _, c := range cc.List {
					v, ok := evalConst(c, 0)
					if !ok || v < 0 {
						good = false
					}
					cs = append(cs, v)
				}
				if good {
					if e, ok := retExpr(cc.Body[0], param); ok {
						item = ".switchRet " + natList(cs) + " " + e
					}
				}
			}
		case *ast.IfStmt:
			if be, ok := x.Cond.(*ast.BinaryExpr); ok && be.Op == token.LSS && x.Init == nil {
				if id, ok := be.X.(*ast.Ident); ok && id.Name == param {
					if k, ok := evalConst(be.Y, 0); ok && k >= 0 {
						if t, ok := retExpr(x.Body, param); ok {
							if x.Else == nil {
								item = fmt.Sprintf(".ifLt %d %s none", k, t)
							} else if e, ok := retExpr(x.Else, param); ok {
								item = fmt.Sprintf(".ifLt %d %s (some %s)", k, t, e)
							}
						}
					}
				}
			}
		}
		out = append(out, item)
	}
	return "[" + strings.Join(out, ", ") + "]"
}

// ---------------------------------------------------------------- hidden state
//
// The exported helpers must be functions of their argument.  Facts transcribed from *all*
// non-test files of the package:
//   pkgVars      sorted names of every package-level `var` (a func-valued var included)
//   structFields per struct type its field names in order
//   writers      per function/method (sorted by name) the sorted roots it assigns to or ++/--:
//                "var:<name>" for a package-level var, "recv.<field>" for a field of its receiver
//                (through index/selector/star chains); functions writing nothing are omitted
//   wrappers     per exported function of DateUtil.go (sorted by name) its body shape:
//                "helper.<method>(<args>)" when the body is exactly `return helper.<method>(args)`
//                with each arg a parameter (#i) or the call Now(); "other" for the clock/delta
//                functions that take no instant or string (their effects are in `writers`);
//                "?" for any other body of a function taking an argument
func rootOf(e ast.Expr) (root *ast.Ident, firstSel string) {
	for {
		switch x := e.(type) {
		case *ast.Ident:
			return x, firstSel
		case *ast.ParenExpr:
			e = x.X
		case *ast.StarExpr:
			e = x.X
		case *ast.IndexExpr:
			e = x.X
		case *ast.SliceExpr:
			e = x.X
		case *ast.SelectorExpr:
			firstSel = x.Sel.Name
			e = x.X
		default:
			return nil, ""
		}
	}
}

func statelessness(b *strings.Builder, fset *token.FileSet, dir string) {
	ents, err := os.ReadDir(dir)
	if err != nil {
		fmt.Fprintln(os.Stderr, "xlate/c19:", err)
		os.Exit(1)
	}
	var names []string
	for _, e := range ents {
		n := e.Name()
		if strings.HasSuffix(n, ".go") && !strings.HasSuffix(n, "_test.go") {
			names = append(names, n)
		}
	}
	sort.Strings(names)
	pkgVar := map[string]bool{}
	var pkgVars []string
	type sf struct {
		name   string
		fields []string
	}
	var structs []sf
	var allFuncs []*ast.FuncDecl
	var utilFuncs []*ast.FuncDecl
	for _, n := range names {
		f, err := parser.ParseFile(fset, filepath.Join(dir, n), nil, 0)
		if err != nil {
			fmt.Fprintln(os.Stderr, "xlate/c19:", err)
			os.Exit(1)
		}
		for _, d := range f.Decls {
			switch x := d.(type) {
			case *ast.FuncDecl:
				allFuncs = append(allFuncs, x)
				if n == "DateUtil.go" && x.Recv == nil && x.Name.IsExported() {
					utilFuncs = append(utilFuncs, x)
				}
			case *ast.GenDecl:
				for _, sp := range x.Specs {
					switch y := sp.(type) {
					case *ast.ValueSpec:
						if x.Tok == token.VAR {
							for _, id := range y.Names {
								pkgVar[id.Name] = true
								pkgVars = append(pkgVars, id.Name)
							}
						}
					case *ast.TypeSpec:
						if st, ok := y.Type.(*ast.StructType); ok {
							var fs []string
							for _, fl := range st.Fields.List {
								if len(fl.Names) == 0 {
									fs = append(fs, "(embedded)")
								}
								for _, id := range fl.Names {
									fs = append(fs, id.Name)
								}
							}
							structs = append(structs, sf{y.Name.Name, fs})
						}
					}
				}
			}
		}
	}
	// exported surface: every exported function, method and type of the package (a new exported
	// constructor / accessor — e.g. one that creates a helper for another zone — changes this list)
	var api []string
	for _, fn := range allFuncs {
		if !fn.Name.IsExported() {
			continue
		}
		if fn.Recv == nil {
			api = append(api, "func "+fn.Name.Name)
		} else if len(fn.Recv.List) == 1 {
			t := fn.Recv.List[0].Type
			if st, ok := t.(*ast.StarExpr); ok {
				t = st.X
			}
			if id, ok := t.(*ast.Ident); ok && id.IsExported() {
				api = append(api, "method "+id.Name+"."+fn.Name.Name)
			}
		}
	}
	for _, st := range structs {
		if ast.IsExported(st.name) {
			api = append(api, "type "+st.name)
		}
	}
	sort.Strings(api)
	fmt.Fprintf(b, "def exportedApi : List String := %s\n", strList(api))
	sort.Strings(pkgVars)
	sort.Slice(structs, func(i, j int) bool { return structs[i].name < structs[j].name })
	fmt.Fprintf(b, "def pkgVars : List String := %s\n", strList(pkgVars))
	{
		ss := make([]string, len(structs))
		for i, s := range structs {
			ss[i] = fmt.Sprintf("(%s, %s)", leanStr(s.name), strList(s.fields))
		}
		fmt.Fprintf(b, "def structFields : List (String × List String) := [%s]\n", strings.Join(ss, ", "))
	}

	// writers
	type wr struct {
		name string
		ws   []string
	}
	var writers []wr
	for _, fn := range allFuncs {
		if fn.Body == nil {
			continue
		}
		recv := ""
		name := fn.Name.Name
		if fn.Recv != nil && len(fn.Recv.List) == 1 {
			if len(fn.Recv.List[0].Names) == 1 {
				recv = fn.Recv.List[0].Names[0].Name
			}
			t := fn.Recv.List[0].Type
			if st, ok := t.(*ast.StarExpr); ok {
				t = st.X
			}
			if id, ok := t.(*ast.Ident); ok {
				name = id.Name + "." + name
			}
		}
		// names declared locally (params, :=, var) shadow package vars
		local := map[string]bool{}
		if fn.Type.Params != nil {
			for _, p := range fn.Type.Params.List {
				for _, id := range p.Names {
					local[id.Name] = true
				}
			}
		}
		if fn.Type.Results != nil {
			for _, p := range fn.Type.Results.List {
				for _, id := range p.Names {
					local[id.Name] = true
				}
			}
		}
		ast.Inspect(fn.Body, func(n ast.Node) bool {
			switch x := n.(type) {
			case *ast.AssignStmt:
				if x.Tok == token.DEFINE {
					for _, l := range x.Lhs {
						if id, ok := l.(*ast.Ident); ok {
							local[id.Name] = true
						}
					}
				}
			case *ast.ValueSpec:
				for _, id := range x.Names {
					local[id.Name] = true
				}
			case *ast.RangeStmt:
				if x.Tok == token.DEFINE {
					for _, e := range []ast.Expr{x.Key, x.Value} {
						if id, ok := e.(*ast.Ident); ok {
							local[id.Name] = true
						}
					}
				}
			}
			return true
		})
		set := map[string]bool{}
		note := func(e ast.Expr) {
			root, sel := rootOf(e)
			if root == nil {
				set["?"] = true
				return
			}
			if recv != "" && root.Name == recv {
				if sel == "" {
					sel = "*"
				}
				set["recv."+sel] = true
				return
			}
			if pkgVar[root.Name] && !local[root.Name] {
				set["var:"+root.Name] = true
			}
		}
		ast.Inspect(fn.Body, func(n ast.Node) bool {
			switch x := n.(type) {
			case *ast.AssignStmt:
				if x.Tok != token.DEFINE {
					for _, l := range x.Lhs {
						note(l)
					}
				}
			case *ast.IncDecStmt:
				note(x.X)
			case *ast.UnaryExpr:
				if x.Op == token.AND { // address of a package var or receiver field escapes: treat as a write
					if root, _ := rootOf(x.X); root != nil && (pkgVar[root.Name] && !local[root.Name] || (recv != "" && root.Name == recv)) {
						note(x.X)
					}
				}
			}
			return true
		})
		if len(set) > 0 {
			var ws []string
			for k := range set {
				ws = append(ws, k)
			}
			sort.Strings(ws)
			writers = append(writers, wr{name, ws})
		}
	}
	sort.Slice(writers, func(i, j int) bool { return writers[i].name < writers[j].name })
	{
		ss := make([]string, len(writers))
		for i, w := range writers {
			ss[i] = fmt.Sprintf("(%s, %s)", leanStr(w.name), strList(w.ws))
		}
		fmt.Fprintf(b, "def writers : List (String × List String) := [%s]\n", strings.Join(ss, ", "))
	}

	// wrappers
	var ws []string
	for _, fn := range utilFuncs {
		var params []string
		if fn.Type.Params != nil {
			for _, p := range fn.Type.Params.List {
				for _, id := range p.Names {
					params = append(params, id.Name)
				}
			}
		}
		shape := "?"
		if len(fn.Body.List) == 1 {
			if r, ok := fn.Body.List[0].(*ast.ReturnStmt); ok && len(r.Results) == 1 {
				if c, ok := r.Results[0].(*ast.CallExpr); ok {
					if sel, ok := c.Fun.(*ast.SelectorExpr); ok {
						if id, ok := sel.X.(*ast.Ident); ok && id.Name == "helper" {
							args := make([]string, len(c.Args))
							good := true
							for i, a := range c.Args {
								args[i] = "?"
								switch y := a.(type) {
								case *ast.Ident:
									for k, p := range params {
										if p == y.Name {
											args[i] = fmt.Sprintf("#%d", k)
										}
									}
								case *ast.CallExpr:
									if f, ok := y.Fun.(*ast.Ident); ok && f.Name == "Now" && len(y.Args) == 0 {
										args[i] = "Now()"
									}
								}
								if args[i] == "?" {
									good = false
								}
							}
							if good {
								shape = "helper." + sel.Sel.Name + "(" + strings.Join(args, ",") + ")"
							}
						}
					}
				}
			}
		}
		if shape == "?" && len(params) == 0 {
			shape = "other"
		}
		if shape == "?" {
			// functions that only set the clock delta take an argument but no instant to render
			if fn.Name.Name == "SetDelta" || fn.Name.Name == "SetServerTime" {
				shape = "other"
			}
		}
		ws = append(ws, fmt.Sprintf("(%s, %s)", leanStr(fn.Name.Name), leanStr(shape)))
	}
	sort.Strings(ws)
	fmt.Fprintf(b, "def wrappers : List (String × String) := [%s]\n", strings.Join(ws, ", "))
}


// ---------------------------------------------------------------- the rune loops of DateFormat.format / Parse

func stripParenConv(e ast.Expr) ast.Expr {
	for {
		switch x := e.(type) {
		case *ast.ParenExpr:
			e = x.X
			continue
		case *ast.CallExpr:
			if id, ok := x.Fun.(*ast.Ident); ok && len(x.Args) == 1 && (id.Name == "int" || id.Name == "int64" || id.Name == "int32") {
				e = x.Args[0]
				continue
			}
		}
		return e
	}
}

func isIdent(e ast.Expr, name string) bool {
	id, ok := e.(*ast.Ident)
	return ok && name != "" && id.Name == name
}

// methodCall: e is `<recv>.<name>(args…)` with recv an identifier; returns recv name, method name, args
func methodCall(e ast.Expr) (string, string, []ast.Expr, bool) {
	c, ok := e.(*ast.CallExpr)
	if !ok {
		return "", "", nil, false
	}
	sel, ok := c.Fun.(*ast.SelectorExpr)
	if !ok {
		return "", "", nil, false
	}
	id, ok := sel.X.(*ast.Ident)
	if !ok {
		return "", "", nil, false
	}
	return id.Name, sel.Sel.Name, c.Args, true
}

// timeSel: the accessor of the time value `tv` that e reads, as a Cal.TimeSel term
func timeSel(e ast.Expr, tv string) string {
	e = stripParenConv(e)
	if r, m, args, ok := methodCall(e); ok && r == tv && len(args) == 0 {
		switch m {
		case "Year":
			return ".year"
		case "Month":
			return ".month"
		case "Day":
			return ".day"
		case "Hour":
			return ".hour"
		case "Minute":
			return ".minute"
		case "Second":
			return ".second"
		}
		return ".other"
	}
	if be, ok := e.(*ast.BinaryExpr); ok && be.Op == token.REM {
		m, okm := evalConst(be.Y, 0)
		if q, ok := stripParenConv(be.X).(*ast.BinaryExpr); ok && okm && q.Op == token.QUO {
			d, okd := evalConst(q.Y, 0)
			if r, mn, args, ok := methodCall(stripParenConv(q.X)); ok && okd && r == tv && mn == "UnixNano" && len(args) == 0 && d > 0 && m > 0 {
				return fmt.Sprintf("(.nanoDivMod %d %d)", d, m)
			}
		}
	}
	return ".other"
}

// isRecvField: e is `<recv>.<field>`
func isRecvField(e ast.Expr, recv, field string) bool {
	sel, ok := e.(*ast.SelectorExpr)
	return ok && isIdent(sel.X, recv) && sel.Sel.Name == field
}

func recvName(fn *ast.FuncDecl) string {
	if fn.Recv != nil && len(fn.Recv.List) == 1 && len(fn.Recv.List[0].Names) == 1 {
		return fn.Recv.List[0].Names[0].Name
	}
	return ""
}

func paramName(fn *ast.FuncDecl, i int) string {
	k := 0
	for _, f := range fn.Type.Params.List {
		for _, n := range f.Names {
			if k == i {
				return n.Name
			}
			k++
		}
	}
	return ""
}

// switchCases: the clauses of `switch <tag> { … }` as "(letter, act)" terms and the default act
func switchCases(sw *ast.SwitchStmt, tag string, act func(body []ast.Stmt) string) (string, bool) {
	if sw.Init != nil || !isIdent(sw.Tag, tag) {
		return "", false
	}
	var cases []string
	dflt := ".nop"
	for _, st := range sw.Body.List {
		cc, ok := st.(*ast.CaseClause)
		if !ok {
			return "", false
		}
		a := act(cc.Body)
		if cc.List == nil {
			dflt = a
			continue
		}
		for _, e := range cc.List {
			v, ok := evalConst(e, 0)
			if !ok || v < 0 {
				return "", false
			}
			cases = append(cases, fmt.Sprintf("(%d, %s)", v, a))
		}
	}
	return fmt.Sprintf("(.switchCh [%s] %s)", strings.Join(cases, ", "), dflt), true
}

// formatLoop: frame of DateFormat.format (kinds of its top-level statements), what the loop ranges over, and its body
func formatLoop(fn *ast.FuncDecl) (frame []string, over string, body string) {
	over, body = "?", "[.other]"
	if fn == nil || fn.Body == nil {
		return
	}
	recv, tv := recvName(fn), paramName(fn, 0)
	alias, buf := "", ""
	for _, st := range fn.Body.List {
		switch x := st.(type) {
		case *ast.AssignStmt:
			if x.Tok == token.DEFINE && len(x.Lhs) == 1 && len(x.Rhs) == 1 && isRecvField(x.Rhs[0], recv, "formatStr") {
				alias = x.Lhs[0].(*ast.Ident).Name
				frame = append(frame, "alias")
				continue
			}
		case *ast.DeclStmt:
			if gd, ok := x.Decl.(*ast.GenDecl); ok && gd.Tok == token.VAR && len(gd.Specs) == 1 {
				if vs, ok := gd.Specs[0].(*ast.ValueSpec); ok && len(vs.Names) == 1 && len(vs.Values) == 0 {
					if sel, ok := vs.Type.(*ast.SelectorExpr); ok && isIdent(sel.X, "bytes") && sel.Sel.Name == "Buffer" {
						buf = vs.Names[0].Name
						frame = append(frame, "buffer")
						continue
					}
				}
			}
		case *ast.RangeStmt:
			frame = append(frame, "loop")
			if isIdent(x.X, alias) || isRecvField(x.X, recv, "formatStr") {
				over = "recv.formatStr"
			}
			ch := ""
			if id, ok := x.Value.(*ast.Ident); ok {
				ch = id.Name
			}
			if x.Key != nil && !isIdent(x.Key, "_") {
				ch = "" // format has no use for the index
			}
			var stmts []string
			for _, bs := range x.Body.List {
				term := ".other"
				if sw, ok := bs.(*ast.SwitchStmt); ok && ch != "" {
					if t, ok := switchCases(sw, ch, func(cb []ast.Stmt) string {
						if len(cb) != 1 {
							return ".other"
						}
						es, ok := cb[0].(*ast.ExprStmt)
						if !ok {
							return ".other"
						}
						r, m, args, ok := methodCall(es.X)
						if !ok || r != buf || len(args) != 1 {
							return ".other"
						}
						switch m {
						case "WriteRune":
							if isIdent(args[0], ch) {
								return ".writeRune"
							}
						case "WriteString":
							if c, ok := args[0].(*ast.CallExpr); ok && isIdent(c.Fun, "LPadInt") && len(c.Args) == 2 {
								if w, ok := evalConst(c.Args[1], 0); ok && w >= 0 {
									return fmt.Sprintf("(.writePad %s %d)", timeSel(c.Args[0], tv), w)
								}
							}
						}
						return ".other"
					}); ok {
						term = t
					}
				}
				stmts = append(stmts, term)
			}
			body = "[" + strings.Join(stmts, ", ") + "]"
			continue
		case *ast.ReturnStmt:
			if len(x.Results) == 1 {
				if r, m, args, ok := methodCall(x.Results[0]); ok && r == buf && m == "String" && len(args) == 0 {
					frame = append(frame, "return-buffer")
					continue
				}
			}
		}
		frame = append(frame, "other")
	}
	return
}

// parseLoop: frame of DateFormat.Parse, its loop body, and the fill statements
func parseLoop(fn *ast.FuncDecl) (frame []string, over string, body string, fills string) {
	over, body, fills = "?", "[.other]", "[]"
	if fn == nil || fn.Body == nil {
		return
	}
	recv, text := recvName(fn), paramName(fn, 0)
	reader, sz, now, dvar, tm := "", "", "", "", ""
	var fl []string
	for _, st := range fn.Body.List {
		switch x := st.(type) {
		case *ast.AssignStmt:
			if x.Tok == token.DEFINE && len(x.Lhs) == 1 && len(x.Rhs) == 1 {
				name := x.Lhs[0].(*ast.Ident).Name
				rhs := x.Rhs[0]
				// r := bytes.NewReader([]byte(dateStr))
				if r, m, args, ok := methodCall(rhs); ok && r == "bytes" && m == "NewReader" && len(args) == 1 {
					if c, ok := args[0].(*ast.CallExpr); ok && len(c.Args) == 1 && isIdent(c.Args[0], text) {
						if at, ok := c.Fun.(*ast.ArrayType); ok && at.Len == nil && isIdent(at.Elt, "byte") {
							reader = name
							frame = append(frame, "reader")
							continue
						}
					}
				}
				// sz := len(dateStr)
				if c, ok := rhs.(*ast.CallExpr); ok && isIdent(c.Fun, "len") && len(c.Args) == 1 && isIdent(c.Args[0], text) {
					sz = name
					frame = append(frame, "sz")
					continue
				}
				// now := time.Now()
				if r, m, args, ok := methodCall(rhs); ok && r == "time" && m == "Now" && len(args) == 0 {
					now = name
					frame = append(frame, "now")
					continue
				}
				// d := time.Date(…)   (arguments: gen_date_args)
				if r, m, args, ok := methodCall(rhs); ok && r == "time" && m == "Date" && len(args) == 8 {
					dvar = name
					frame = append(frame, "date")
					continue
				}
				// tm := d.UnixNano() / K   (K: gen_date_args)
				if be, ok := rhs.(*ast.BinaryExpr); ok && be.Op == token.QUO {
					if r, m, args, ok := methodCall(be.X); ok && r == dvar && dvar != "" && m == "UnixNano" && len(args) == 0 {
						tm = name
						frame = append(frame, "millis")
						continue
					}
				}
			}
		case *ast.RangeStmt:
			frame = append(frame, "loop")
			if isRecvField(x.X, recv, "formatStr") {
				over = "recv.formatStr"
			}
			idx, ch := "", ""
			if id, ok := x.Key.(*ast.Ident); ok {
				idx = id.Name
			}
			if id, ok := x.Value.(*ast.Ident); ok {
				ch = id.Name
			}
			var stmts []string
			for _, bs := range x.Body.List {
				term := ".other"
				switch y := bs.(type) {
				case *ast.IfStmt:
					// if i >= sz { break }
					if be, ok := y.Cond.(*ast.BinaryExpr); ok && y.Init == nil && y.Else == nil && be.Op == token.GEQ &&
						isIdent(be.X, idx) && isIdent(be.Y, sz) && len(y.Body.List) == 1 {
						if br, ok := y.Body.List[0].(*ast.BranchStmt); ok && br.Tok == token.BREAK && br.Label == nil {
							term = ".breakIfIdxGeSz"
						}
					}
				case *ast.SwitchStmt:
					if ch == "" {
						break
					}
					if t, ok := switchCases(y, ch, func(cb []ast.Stmt) string {
						if len(cb) != 1 {
							return ".other"
						}
						// r.ReadRune()
						if es, ok := cb[0].(*ast.ExprStmt); ok {
							if r, m, args, ok := methodCall(es.X); ok && r == reader && m == "ReadRune" && len(args) == 0 {
								return ".readRune"
							}
							return ".other"
						}
						// if v, err := this.ToInt(r, W); err == nil { this.date[ch] = v } else { return 0, <error> }
						is, ok := cb[0].(*ast.IfStmt)
						if !ok || is.Init == nil || is.Else == nil {
							return ".other"
						}
						as, ok := is.Init.(*ast.AssignStmt)
						if !ok || as.Tok != token.DEFINE || len(as.Lhs) != 2 || len(as.Rhs) != 1 {
							return ".other"
						}
						v, okv := as.Lhs[0].(*ast.Ident)
						er, oke := as.Lhs[1].(*ast.Ident)
						r, m, args, okc := methodCall(as.Rhs[0])
						if !okv || !oke || !okc || r != recv || m != "ToInt" || len(args) != 2 || !isIdent(args[0], reader) {
							return ".other"
						}
						w, okw := evalConst(args[1], 0)
						if !okw || w < 0 {
							return ".other"
						}
						cond, ok := is.Cond.(*ast.BinaryExpr)
						if !ok || cond.Op != token.EQL || !isIdent(cond.X, er.Name) || !isIdent(cond.Y, "nil") {
							return ".other"
						}
						if len(is.Body.List) != 1 {
							return ".other"
						}
						st, ok := is.Body.List[0].(*ast.AssignStmt)
						if !ok || st.Tok != token.ASSIGN || len(st.Lhs) != 1 || len(st.Rhs) != 1 || !isIdent(st.Rhs[0], v.Name) {
							return ".other"
						}
						ix, ok := st.Lhs[0].(*ast.IndexExpr)
						if !ok || !isRecvField(ix.X, recv, "date") || !isIdent(ix.Index, ch) {
							return ".other"
						}
						eb, ok := is.Else.(*ast.BlockStmt)
						if !ok || len(eb.List) != 1 {
							return ".other"
						}
						ret, ok := eb.List[0].(*ast.ReturnStmt)
						if !ok || len(ret.Results) != 2 || isIdent(ret.Results[1], "nil") {
							return ".other"
						}
						return fmt.Sprintf("(.toIntStore %d)", w)
					}); ok {
						term = t
					}
				}
				stmts = append(stmts, term)
			}
			body = "[" + strings.Join(stmts, ", ") + "]"
			continue
		case *ast.IfStmt:
			// if _, ok := this.date[K]; !ok { this.date[K] = now.X() }
			term := ""
			if as, ok := x.Init.(*ast.AssignStmt); ok && x.Else == nil && as.Tok == token.DEFINE && len(as.Lhs) == 2 && len(as.Rhs) == 1 &&
				isIdent(as.Lhs[0], "_") && len(x.Body.List) == 1 {
				okv, _ := as.Lhs[1].(*ast.Ident)
				ix, ok1 := as.Rhs[0].(*ast.IndexExpr)
				ne, ok2 := x.Cond.(*ast.UnaryExpr)
				st, ok3 := x.Body.List[0].(*ast.AssignStmt)
				if okv != nil && ok1 && ok2 && ok3 && ne.Op == token.NOT && isIdent(ne.X, okv.Name) && isRecvField(ix.X, recv, "date") &&
					st.Tok == token.ASSIGN && len(st.Lhs) == 1 && len(st.Rhs) == 1 {
					k1, okk1 := evalConst(ix.Index, 0)
					if ix2, ok := st.Lhs[0].(*ast.IndexExpr); ok && okk1 && k1 >= 0 && isRecvField(ix2.X, recv, "date") {
						k2, okk2 := evalConst(ix2.Index, 0)
						sel := ".other"
						if okk2 && k1 == k2 {
							sel = timeSel(st.Rhs[0], now)
						}
						term = fmt.Sprintf("(%d, %s)", k1, sel)
					}
				}
			}
			if term != "" {
				fl = append(fl, term)
				frame = append(frame, "fill")
				continue
			}
		case *ast.ReturnStmt:
			if len(x.Results) == 2 && isIdent(x.Results[0], tm) && isIdent(x.Results[1], "nil") {
				frame = append(frame, "return-millis")
				continue
			}
		}
		frame = append(frame, "other")
	}
	fills = "[" + strings.Join(fl, ", ") + "]"
	return
}

func main() {
	repo := flag.String("repo", "/repo", "repository root")
	outp := flag.String("out", "", "output Lean file")
	flag.Parse()
	fset := token.NewFileSet()
	dir := filepath.Join(*repo, "util", "dateutil")
	files := map[string]*ast.File{}
	for _, name := range []string{"DateTimeHelper.go", "DateFormat.go"} {
		f, err := parser.ParseFile(fset, filepath.Join(dir, name), nil, 0)
		if err != nil {
			fmt.Fprintln(os.Stderr, "xlate/c19:", err)
			os.Exit(1)
		}
		files[name] = f
	}
	funcs := map[string]*ast.FuncDecl{}
	vars := map[string]ast.Expr{}
	for _, f := range files {
		for _, d := range f.Decls {
			switch x := d.(type) {
			case *ast.FuncDecl:
				funcs[x.Name.Name] = x
			case *ast.GenDecl:
				for _, sp := range x.Specs {
					vs, ok := sp.(*ast.ValueSpec)
					if !ok {
						continue
					}
					for i, n := range vs.Names {
						if i < len(vs.Values) {
							if x.Tok == token.CONST {
								constExprs[n.Name] = vs.Values[i]
							} else {
								vars[n.Name] = vs.Values[i]
							}
						}
					}
				}
			}
		}
	}
	for n, e := range constExprs {
		if v, ok := evalConst(e, 0); ok {
			consts[n] = v
		}
	}

	var b strings.Builder
	b.WriteString("/- generated by xlate/c19 from util/dateutil — do not edit -/\nimport Golib.Cal.PadIR\nnamespace Gen.C19\n\n")

	// tables
	intsOf := func(name string) []int64 {
		cl, ok := vars[name].(*ast.CompositeLit)
		if !ok {
			return nil
		}
		var xs []int64
		for _, e := range cl.Elts {
			v, ok := evalConst(e, 0)
			if !ok {
				return nil
			}
			xs = append(xs, v)
		}
		return xs
	}
	strsOf := func(name string) []string {
		cl, ok := vars[name].(*ast.CompositeLit)
		if !ok {
			return nil
		}
		var xs []string
		for _, e := range cl.Elts {
			l, ok := e.(*ast.BasicLit)
			if !ok {
				return nil
			}
			s, err := strconv.Unquote(l.Value)
			if err != nil {
				return nil
			}
			xs = append(xs, s)
		}
		return xs
	}
	fmt.Fprintf(&b, "def mdayLen : List Nat := %s\n", natList(intsOf("mdayLen")))
	fmt.Fprintf(&b, "def wday : List String := %s\n", strList(strsOf("wday")))
	for _, c := range []string{"MILLIS_PER_SECOND", "MILLIS_PER_MINUTE", "MILLIS_PER_FIVE_MINUTE", "MILLIS_PER_HOUR", "MILLIS_PER_DAY"} {
		v := consts[c]
		if v < 0 {
			v = 0
		}
		fmt.Fprintf(&b, "def %s : Nat := %d\n", c, v)
	}

	// isYun
	body := ""
	if fn := funcs["isYun"]; fn != nil && fn.Type.Params != nil && len(fn.Type.Params.List) == 1 && len(fn.Type.Params.List[0].Names) == 1 {
		if c := predicateBody(fn); c != nil {
			body = leanExpr(c, fn.Type.Params.List[0].Names[0].Name)
		}
	}
	if body == "" {
		body = "false && false -- untranscribable"
		fmt.Fprintf(&b, "def isYunKnown : Bool := false\n")
	} else {
		fmt.Fprintf(&b, "def isYunKnown : Bool := true\n")
	}
	fmt.Fprintf(&b, "def isYun (x : Nat) : Bool := %s\n", body)

	// base instant: time.Date(...) calls in newDateTimeHelper whose last argument is time.UTC
	var base []int64
	if fn := funcs["newDateTimeHelper"]; fn != nil {
		ast.Inspect(fn.Body, func(n ast.Node) bool {
			c, ok := n.(*ast.CallExpr)
			if !ok {
				return true
			}
			sel, ok := c.Fun.(*ast.SelectorExpr)
			if !ok || sel.Sel.Name != "Date" || len(c.Args) != 8 {
				return true
			}
			if l, ok := c.Args[7].(*ast.SelectorExpr); !ok || l.Sel.Name != "UTC" {
				return true
			}
			var xs []int64
			for _, a := range c.Args[:7] {
				v, ok := evalConst(a, 0)
				if !ok {
					v = -1
				}
				xs = append(xs, v)
			}
			base = xs
			return true
		})
	}
	fmt.Fprintf(&b, "def baseDateUTC : List Nat := %s\n", natList(base))

	// open(): literal loop bounds (nesting order), literal := initialisers (sorted), == literal tests (sorted),
	// the Sprintf format of the date string and the literal offsets added to year/mm/dd
	var bounds, inits, eqs, adds []int64
	var sprintfs []string
	if fn := funcs["open"]; fn != nil {
		ast.Inspect(fn.Body, func(n ast.Node) bool {
			switch x := n.(type) {
			case *ast.ForStmt:
				if be, ok := x.Cond.(*ast.BinaryExpr); ok && be.Op == token.LSS {
					if v, ok := evalConst(be.Y, 0); ok {
						bounds = append(bounds, v)
					}
				}
			case *ast.AssignStmt:
				if x.Tok == token.DEFINE && len(x.Rhs) == 1 {
					if l, ok := x.Rhs[0].(*ast.BasicLit); ok && l.Kind == token.INT {
						v, _ := strconv.ParseInt(l.Value, 0, 64)
						inits = append(inits, v)
					}
				}
			case *ast.BinaryExpr:
				if x.Op == token.EQL {
					if l, ok := x.Y.(*ast.BasicLit); ok && l.Kind == token.INT {
						v, _ := strconv.ParseInt(l.Value, 0, 64)
						eqs = append(eqs, v)
					}
				}
			case *ast.CallExpr:
				if sel, ok := x.Fun.(*ast.SelectorExpr); ok && sel.Sel.Name == "Sprintf" && len(x.Args) >= 1 {
					if l, ok := x.Args[0].(*ast.BasicLit); ok {
						if s, err := strconv.Unquote(l.Value); err == nil {
							sprintfs = append(sprintfs, s)
						}
					}
					for _, a := range x.Args[1:] {
						if p, ok := a.(*ast.ParenExpr); ok {
							a = p.X
						}
						if be, ok := a.(*ast.BinaryExpr); ok && be.Op == token.ADD {
							if v, ok := evalConst(be.Y, 0); ok {
								adds = append(adds, v)
							}
						}
					}
				}
			}
			return true
		})
	}
	sort.Slice(inits, func(i, j int) bool { return inits[i] < inits[j] })
	sort.Slice(eqs, func(i, j int) bool { return eqs[i] < eqs[j] })
	fmt.Fprintf(&b, "def openLoopBounds : List Nat := %s\n", natList(bounds))
	fmt.Fprintf(&b, "def openLiteralInits : List Nat := %s\n", natList(inits))
	fmt.Fprintf(&b, "def openEqTests : List Nat := %s\n", natList(eqs))
	fmt.Fprintf(&b, "def openDateFormat : List String := %s\n", strList(sprintfs))
	fmt.Fprintf(&b, "def openDateOffsets : List Nat := %s\n", natList(adds))

	// string helpers
	for _, name := range []string{"datetime", "timestamp", "logtime", "ymdhms", "hhmmss", "hhmm"} {
		var ps []string
		if fn := funcs[name]; fn != nil {
			ps = pieces(fn)
		}
		fmt.Fprintf(&b, "def pieces_%s : List String := %s\n", name, strList(ps))
		// the same as a program for Cal.evalPieces
		items := make([]string, len(ps))
		for i, p := range ps {
			switch {
			case p == "field:date":
				items[i] = ".date"
			case strings.HasPrefix(p, "lit:"):
				var xs []int64
				for _, r := range p[4:] {
					xs = append(xs, int64(r))
				}
				items[i] = ".lit " + natList(xs)
			case p == "call:mk2":
				items[i] = ".callMk2"
			case p == "call:mk3":
				items[i] = ".callMk3"
			default:
				items[i] = ".other"
			}
		}
		fmt.Fprintf(&b, "def prog_%s : List Cal.Piece := [%s]\n", name, strings.Join(items, ", "))
	}

	// DateFormat: per letter widths
	type lw struct{ letter, width int64 }
	widths := func(fname, callee string, argIdx int) []lw {
		var out []lw
		fn := funcs[fname]
		if fn == nil {
			return nil
		}
		ast.Inspect(fn.Body, func(n ast.Node) bool {
			cc, ok := n.(*ast.CaseClause)
			if !ok || len(cc.List) != 1 {
				return true
			}
			letter, ok := evalConst(cc.List[0], 0)
			if !ok {
				return true
			}
			w := int64(-1)
			cnt := 0
			for _, st := range cc.Body {
				ast.Inspect(st, func(m ast.Node) bool {
					c, ok := m.(*ast.CallExpr)
					if !ok {
						return true
					}
					name := ""
					switch f := c.Fun.(type) {
					case *ast.Ident:
						name = f.Name
					case *ast.SelectorExpr:
						name = f.Sel.Name
					}
					if name == callee && len(c.Args) > argIdx {
						cnt++
						if v, ok := evalConst(c.Args[argIdx], 0); ok {
							w = v
						}
					}
					return true
				})
			}
			if cnt == 1 {
				out = append(out, lw{letter, w})
			} else {
				out = append(out, lw{letter, -1})
			}
			return true
		})
		sort.Slice(out, func(i, j int) bool { return out[i].letter < out[j].letter })
		return out
	}
	pairList := func(xs []lw) string {
		ss := make([]string, len(xs))
		for i, x := range xs {
			if x.width < 0 || x.letter < 0 {
				return "[]"
			}
			ss[i] = fmt.Sprintf("(%d, %d)", x.letter, x.width)
		}
		return "[" + strings.Join(ss, ", ") + "]"
	}
	fmt.Fprintf(&b, "def formatWidths : List (Nat × Nat) := %s\n", pairList(widths("format", "LPadInt", 1)))
	fmt.Fprintf(&b, "def parseWidths : List (Nat × Nat) := %s\n", pairList(widths("Parse", "ToInt", 1)))

	// Parse: letters indexing this.date in the arguments of time.Date, in order; ns multiplier; final divisor
	var dateArgs []int64
	var nsMul, msDiv int64
	if fn := funcs["Parse"]; fn != nil {
		ast.Inspect(fn.Body, func(n ast.Node) bool {
			c, ok := n.(*ast.CallExpr)
			if !ok {
				return true
			}
			sel, ok := c.Fun.(*ast.SelectorExpr)
			if !ok || sel.Sel.Name != "Date" || len(c.Args) != 8 {
				return true
			}
			for i, a := range c.Args[:7] {
				ast.Inspect(a, func(m ast.Node) bool {
					if ix, ok := m.(*ast.IndexExpr); ok {
						if v, ok := evalConst(ix.Index, 0); ok {
							dateArgs = append(dateArgs, v)
						}
						return false
					}
					return true
				})
				if i == 6 {
					if be, ok := a.(*ast.BinaryExpr); ok && be.Op == token.MUL {
						nsMul, _ = evalConst(be.Y, 0)
					}
				}
			}
			return false
		})
		// tm := d.UnixNano() / K
		ast.Inspect(fn.Body, func(n ast.Node) bool {
			be, ok := n.(*ast.BinaryExpr)
			if !ok || be.Op != token.QUO {
				return true
			}
			if c, ok := be.X.(*ast.CallExpr); ok {
				if sel, ok := c.Fun.(*ast.SelectorExpr); ok && sel.Sel.Name == "UnixNano" {
					if id, ok := sel.X.(*ast.Ident); ok && id.Name != "now" && id.Name != "t" {
						msDiv, _ = evalConst(be.Y, 0)
					}
				}
			}
			return true
		})
	}
	fmt.Fprintf(&b, "def parseDateArgLetters : List Nat := %s\n", natList(dateArgs))
	fmt.Fprintf(&b, "def parseNanosPerMilli : Nat := %d\n", nsMul)
	fmt.Fprintf(&b, "def parseUnixNanoDivisor : Nat := %d\n", msDiv)

	// whole bodies of the string helpers: the `/ %` chain (Cal.Assign) and the outputs with variable names (Cal.Out)
	for _, name := range []string{"datetime", "timestamp", "logtime", "ymdhms", "hhmmss", "hhmm"} {
		as, os := helperBody(funcs[name])
		fmt.Fprintf(&b, "def chain_%s : List Cal.Assign := %s\n", name, as)
		fmt.Fprintf(&b, "def outs_%s : List Cal.Out := %s\n", name, os)
	}

	// pad functions as PadStmt programs, Sprintf formats as code points
	for _, name := range []string{"mk2", "mk3"} {
		fmt.Fprintf(&b, "def %s : List Cal.PadStmt := %s\n", name, padProgram(funcs[name]))
	}
	fmtOf := func(fname string) string {
		fn := funcs[fname]
		res := "[]"
		if fn == nil {
			return res
		}
		cnt := 0
		ast.Inspect(fn.Body, func(n ast.Node) bool {
			if c, ok := n.(*ast.CallExpr); ok {
				if sel, ok := c.Fun.(*ast.SelectorExpr); ok && sel.Sel.Name == "Sprintf" && len(c.Args) >= 1 {
					cnt++
					if l, ok := c.Args[0].(*ast.BasicLit); ok {
						if str, err := strconv.Unquote(l.Value); err == nil {
							var xs []int64
							for _, r := range str {
								xs = append(xs, int64(r))
							}
							res = natList(xs)
						}
					}
				}
			}
			return true
		})
		if cnt != 1 {
			return "[]"
		}
		return res
	}
	fmt.Fprintf(&b, "def fmt_open : List Nat := %s\n", fmtOf("open"))
	fmt.Fprintf(&b, "def fmt_hhmmss : List Nat := %s\n", fmtOf("hhmmss"))
	fmt.Fprintf(&b, "def fmt_hhmm : List Nat := %s\n", fmtOf("hhmm"))

	// the rune loops of DateFormat.format / Parse, statement by statement (semantics: Golib.Cal.LoopIR)
	{
		frame, over, body := formatLoop(funcs["format"])
		fmt.Fprintf(&b, "def formatFrame : List String := %s\n", strList(frame))
		fmt.Fprintf(&b, "def formatRangeOver : String := %s\n", leanStr(over))
		fmt.Fprintf(&b, "def formatBody : List Cal.FmtStmt := %s\n", body)
		pframe, pover, pbody, fills := parseLoop(funcs["Parse"])
		fmt.Fprintf(&b, "def parseFrame : List String := %s\n", strList(pframe))
		fmt.Fprintf(&b, "def parseRangeOver : String := %s\n", leanStr(pover))
		fmt.Fprintf(&b, "def parseBody : List Cal.ParseStmt := %s\n", pbody)
		fmt.Fprintf(&b, "def parseFills : List (Nat × Cal.TimeSel) := %s\n", fills)
		// the exported entries of format: Format() = this.format(time.Now()), FormatTime(t) = this.format(t)
		var ws []string
		for _, name := range []string{"Format", "FormatTime"} {
			what := "other"
			if fn := funcs[name]; fn != nil && fn.Body != nil && len(fn.Body.List) == 1 {
				if ret, ok := fn.Body.List[0].(*ast.ReturnStmt); ok && len(ret.Results) == 1 {
					if r, m, args, ok := methodCall(ret.Results[0]); ok && r == recvName(fn) && m == "format" && len(args) == 1 {
						if isIdent(args[0], paramName(fn, 0)) {
							what = "recv.format(#0)"
						} else if r2, m2, a2, ok := methodCall(args[0]); ok && r2 == "time" && m2 == "Now" && len(a2) == 0 {
							what = "recv.format(time.Now())"
						}
					}
				}
			}
			ws = append(ws, fmt.Sprintf("(%s, %s)", leanStr(name), leanStr(what)))
		}
		fmt.Fprintf(&b, "def formatEntries : List (String × String) := [%s]\n", strings.Join(ws, ", "))
	}

	statelessness(&b, fset, dir)

	b.WriteString("\nend Gen.C19\n")
	if *outp == "" {
		fmt.Print(b.String())
		return
	}
	if err := os.WriteFile(*outp, []byte(b.String()), 0o644); err != nil {
		fmt.Fprintln(os.Stderr, "xlate/c19:", err)
		os.Exit(1)
	}
}
