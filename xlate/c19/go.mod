module verif/xlate/c19

go 1.23
