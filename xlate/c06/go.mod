module verif/xlate/c06

go 1.23
