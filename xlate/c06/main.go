// xlate/c06 — tie A for property C06.
//
// Reads net/oneway/OneWayTcpClient.go with go/parser and transcribes, as Lean
// data (a value of Tcp.Facts), the facts about the source text that the
// CodeModel Golib.Tcp.Model relies on: which calls sendDirect / process() /
// send / Connect / Close / Flush make and in which order, where the send lock
// is taken and released, whether process() calls Connect while holding it,
// on which error paths Close is called, who takes from the queue, which
// goroutines are started, and how makeData picks the license.
//
// It never judges: Golib/Props/C06Gen.lean compares the record with
// Tcp.assumed by `decide`.  Shapes it does not recognise come out as values
// that cannot match (empty sequences, false).
package main

import (
	"flag"
	"fmt"
	"go/ast"
	"go/parser"
	"go/token"
	"os"
	"path/filepath"
	"sort"
	"strconv"
	"strings"
)

const lockVar = "oneWayClientSendLock"

func sel(e ast.Expr) string { // dotted path of a selector expression: this.Queue.Put
	switch x := e.(type) {
	case *ast.Ident:
		return x.Name
	case *ast.SelectorExpr:
		return sel(x.X) + "." + x.Sel.Name
	case *ast.CallExpr:
		return sel(x.Fun) + "()"
	case *ast.ParenExpr:
		return sel(x.X)
	case *ast.StarExpr:
		return sel(x.X)
	case *ast.TypeAssertExpr:
		return sel(x.X)
	}
	return "?"
}

// classify maps a call to the model's vocabulary ("" = irrelevant).
func classify(c *ast.CallExpr, recv string) string {
	p := sel(c.Fun)
	switch p {
	case lockVar + ".Lock":
		return "lock"
	case lockVar + ".Unlock":
		return "unlock"
	case recv + ".makeData":
		return "makeData"
	case recv + ".send":
		return "send"
	case recv + ".Flush":
		return "flush"
	case recv + ".Close":
		return "close"
	case recv + ".Connect":
		return "connect"
	case recv + ".sendDirect":
		return "sendDirect"
	case recv + ".Queue.Put", recv + ".Queue.PutForce":
		return "queuePut"
	case recv + ".Queue.GetTimeout", recv + ".Queue.Get":
		return "queueGetTimeout"
	case recv + ".Queue.GetNoWait":
		return "queueGetNoWait"
	case "net.DialTimeout", "net.Dial":
		return "dial"
	case "bufio.NewWriterSize", "bufio.NewWriter":
		return "newWriter"
	case recv + ".conn.Close":
		return "connClose"
	case recv + ".conn.SetWriteDeadline":
		return "setDeadline"
	case recv + ".wr.Write":
		return "bufWrite"
	case recv + ".wr.Flush":
		return "bufFlush"
	}
	return ""
}

type fn struct {
	decl *ast.FuncDecl
	recv string
}

func callSeq(f *fn) []string {
	var out []string
	deferred := map[*ast.CallExpr]bool{}
	ast.Inspect(f.decl.Body, func(n ast.Node) bool {
		switch x := n.(type) {
		case *ast.DeferStmt:
			deferred[x.Call] = true
		case *ast.CallExpr:
			k := classify(x, f.recv)
			if k == "unlock" && deferred[x] {
				k = "deferUnlock"
			}
			if k != "" {
				out = append(out, k)
			}
		}
		return true
	})
	return out
}

func containsCall(n ast.Node, recv, kind string) bool {
	found := false
	if n == nil {
		return false
	}
	ast.Inspect(n, func(m ast.Node) bool {
		if c, ok := m.(*ast.CallExpr); ok && classify(c, recv) == kind {
			found = true
		}
		return true
	})
	return found
}

// closeOnErr: is there an `if … <kind>(…) …; err != nil { … Close() … }` in f?
func closeOnErr(f *fn, kind string) bool {
	res := false
	ast.Inspect(f.decl.Body, func(n ast.Node) bool {
		if is, ok := n.(*ast.IfStmt); ok && is.Init != nil && containsCall(is.Init, f.recv, kind) {
			if containsCall(is.Body, f.recv, "close") {
				res = true
			}
		}
		return true
	})
	return res
}

func isLockStmt(s ast.Stmt, recv, kind string) bool {
	es, ok := s.(*ast.ExprStmt)
	if !ok {
		return false
	}
	c, ok := es.X.(*ast.CallExpr)
	return ok && classify(c, recv) == kind
}

// connectLocked: every statement of f that contains a Connect call is directly
// preceded by `Lock()` and directly followed by `Unlock()` in its statement list.
func connectLocked(f *fn) bool {
	total, good := 0, 0
	var lists [][]ast.Stmt
	ast.Inspect(f.decl.Body, func(n ast.Node) bool {
		switch x := n.(type) {
		case *ast.BlockStmt:
			lists = append(lists, x.List)
		case *ast.CaseClause:
			lists = append(lists, x.Body)
		case *ast.CommClause:
			lists = append(lists, x.Body)
		}
		return true
	})
	ast.Inspect(f.decl.Body, func(n ast.Node) bool {
		if c, ok := n.(*ast.CallExpr); ok && classify(c, f.recv) == "connect" {
			total++
		}
		return true
	})
	for _, l := range lists {
		for i, s := range l {
			switch s.(type) {
			case *ast.ExprStmt, *ast.AssignStmt:
			default:
				continue // nested statements are visited through their own lists
			}
			if containsCall(s, f.recv, "connect") && i > 0 && i+1 < len(l) &&
				isLockStmt(l[i-1], f.recv, "lock") && isLockStmt(l[i+1], f.recv, "unlock") {
				good++
			}
		}
	}
	return total > 0 && total == good
}

func exprStr(e ast.Expr) string {
	switch x := e.(type) {
	case *ast.BinaryExpr:
		return exprStr(x.X) + x.Op.String() + exprStr(x.Y)
	case *ast.BasicLit:
		return x.Value
	case *ast.Ident, *ast.SelectorExpr:
		return sel(e)
	case *ast.ParenExpr:
		return exprStr(x.X)
	}
	return "?"
}

func assignedFields(f *fn) []string {
	var out []string
	seen := map[string]bool{}
	ast.Inspect(f.decl.Body, func(n ast.Node) bool {
		if as, ok := n.(*ast.AssignStmt); ok {
			for _, l := range as.Lhs {
				p := sel(l)
				if strings.HasPrefix(p, f.recv+".") {
					name := strings.TrimPrefix(p, f.recv+".")
					if !seen[name] {
						seen[name] = true
						out = append(out, name)
					}
				}
			}
		}
		return true
	})
	return out
}

func leanCalls(xs []string) string {
	if len(xs) == 0 {
		return "[]"
	}
	ys := make([]string, len(xs))
	for i, x := range xs {
		ys[i] = "." + x
	}
	return "[" + strings.Join(ys, ", ") + "]"
}
func leanStrs(xs []string) string {
	ys := make([]string, len(xs))
	for i, x := range xs {
		ys[i] = strconv.Quote(x)
	}
	return "[" + strings.Join(ys, ", ") + "]"
}
func leanBool(b bool) string {
	if b {
		return "true"
	}
	return "false"
}

func main() {
	repo := flag.String("repo", "/repo", "repository root")
	out := flag.String("out", "", "output .lean file")
	flag.Parse()
	path := filepath.Join(*repo, "net", "oneway", "OneWayTcpClient.go")
	fset := token.NewFileSet()
	file, err := parser.ParseFile(fset, path, nil, 0)
	if err != nil {
		fmt.Fprintln(os.Stderr, "xlate/c06:", err)
		os.Exit(1)
	}
	fns := map[string]*fn{}
	consts := map[string]string{}
	var goroutines []string
	for _, d := range file.Decls {
		switch x := d.(type) {
		case *ast.FuncDecl:
			recv := ""
			if x.Recv != nil && len(x.Recv.List) == 1 && len(x.Recv.List[0].Names) == 1 {
				if strings.HasSuffix(sel(x.Recv.List[0].Type), "OneWayTcpClient") {
					recv = x.Recv.List[0].Names[0].Name
				}
			}
			if x.Body != nil {
				if recv != "" {
					fns[x.Name.Name] = &fn{x, recv}
				}
				ast.Inspect(x.Body, func(n ast.Node) bool {
					if g, ok := n.(*ast.GoStmt); ok {
						p := sel(g.Call.Fun)
						goroutines = append(goroutines, p[strings.LastIndex(p, ".")+1:])
					}
					return true
				})
			}
		case *ast.GenDecl:
			if x.Tok == token.CONST {
				for _, s := range x.Specs {
					vs := s.(*ast.ValueSpec)
					for i, n := range vs.Names {
						if i < len(vs.Values) {
							consts[n.Name] = exprStr(vs.Values[i])
						}
					}
				}
			}
		}
	}
	get := func(name string) *fn {
		if f, ok := fns[name]; ok {
			return f
		}
		return &fn{&ast.FuncDecl{Body: &ast.BlockStmt{}}, "this"}
	}
	sd, pr, sf, se, co, cl, fl, md := get("sendDirect"), get("process"), get("SendFlush"), get("send"), get("Connect"), get("Close"), get("Flush"), get("makeData")

	// send(): Connect only inside `if this.conn == nil`
	sendNil := false
	connectsInSend, guardedInSend := 0, 0
	ast.Inspect(se.decl.Body, func(n ast.Node) bool {
		if c, ok := n.(*ast.CallExpr); ok && classify(c, se.recv) == "connect" {
			connectsInSend++
		}
		if is, ok := n.(*ast.IfStmt); ok && exprStr(is.Cond) == se.recv+".conn==nil" {
			ast.Inspect(is.Body, func(m ast.Node) bool {
				if c, ok := m.(*ast.CallExpr); ok && classify(c, se.recv) == "connect" {
					guardedInSend++
				}
				return true
			})
		}
		return true
	})
	sendNil = connectsInSend > 0 && connectsInSend == guardedInSend

	// Connect(): first statement `if this.conn != nil { return nil }`
	connGuard := false
	if len(co.decl.Body.List) > 0 {
		if is, ok := co.decl.Body.List[0].(*ast.IfStmt); ok && exprStr(is.Cond) == co.recv+".conn!=nil" && len(is.Body.List) == 1 {
			if r, ok := is.Body.List[0].(*ast.ReturnStmt); ok && len(r.Results) == 1 && exprStr(r.Results[0]) == "nil" {
				connGuard = true
			}
		}
	}

	// queue consumers
	var consumers []string
	for name, f := range fns {
		if containsCall(f.decl.Body, f.recv, "queueGetTimeout") || containsCall(f.decl.Body, f.recv, "queueGetNoWait") {
			consumers = append(consumers, name)
		}
	}
	sort.Strings(consumers)
	sort.Strings(goroutines)

	// makeData: if o.License != "" { WriteHeader(src, ver, pcode, hash(o.License)) } else { … hash(this.License) }
	lic := false
	src, ver := "?", "?"
	ast.Inspect(md.decl.Body, func(n ast.Node) bool {
		is, ok := n.(*ast.IfStmt)
		if !ok || is.Else == nil {
			return true
		}
		cond := exprStr(is.Cond)
		if !strings.HasSuffix(cond, `.License!=""`) || strings.HasPrefix(cond, md.recv+".") {
			return true
		}
		optVar := strings.TrimSuffix(cond, `.License!=""`)
		header := func(b ast.Node, want string) bool {
			okk := false
			ast.Inspect(b, func(m ast.Node) bool {
				if c, ok := m.(*ast.CallExpr); ok && strings.HasSuffix(sel(c.Fun), ".WriteHeader") && len(c.Args) == 4 {
					if h, ok := c.Args[3].(*ast.CallExpr); ok && len(h.Args) == 1 && sel(h.Args[0]) == want && strings.HasSuffix(sel(h.Fun), "Hash64Str") {
						okk = true
						src, ver = sel(c.Args[0]), sel(c.Args[1])
					}
				}
				return true
			})
			return okk
		}
		if header(is.Body, optVar+".License") && header(is.Else, md.recv+".License") {
			lic = true
		}
		return true
	})
	num := func(name string) string {
		if v, ok := consts[name]; ok {
			if _, err := strconv.Atoi(v); err == nil {
				return v
			}
		}
		return "999"
	}

	var b strings.Builder
	b.WriteString("-- generated by xlate/c06 from net/oneway/OneWayTcpClient.go — do not edit\n")
	b.WriteString("import Golib.Tcp.Facts\n\nnamespace Gen.C06\nopen Tcp\n\n")
	b.WriteString("def facts : Facts :=\n")
	fmt.Fprintf(&b, "  { sendDirect := %s\n", leanCalls(callSeq(sd)))
	fmt.Fprintf(&b, "    directCloseOnSendErr := %s\n", leanBool(closeOnErr(sd, "send")))
	fmt.Fprintf(&b, "    directCloseOnFlushErr := %s\n", leanBool(closeOnErr(sd, "flush")))
	fmt.Fprintf(&b, "    process := %s\n", leanCalls(callSeq(pr)))
	fmt.Fprintf(&b, "    processConnectLocked := %s\n", leanBool(connectLocked(pr)))
	fmt.Fprintf(&b, "    processCloseOnSendErr := %s\n", leanBool(closeOnErr(pr, "send")))
	fmt.Fprintf(&b, "    processCloseOnFlushErr := %s\n", leanBool(closeOnErr(pr, "flush")))
	fmt.Fprintf(&b, "    sendFlush := %s\n", leanCalls(callSeq(sf)))
	fmt.Fprintf(&b, "    send := %s\n", leanCalls(callSeq(se)))
	fmt.Fprintf(&b, "    sendConnectsOnlyWhenNil := %s\n", leanBool(sendNil))
	fmt.Fprintf(&b, "    connect := %s\n", leanCalls(callSeq(co)))
	fmt.Fprintf(&b, "    connectGuarded := %s\n", leanBool(connGuard))
	fmt.Fprintf(&b, "    connectAssigns := %s\n", leanStrs(assignedFields(co)))
	fmt.Fprintf(&b, "    close := %s\n", leanCalls(callSeq(cl)))
	fmt.Fprintf(&b, "    closeAssigns := %s\n", leanStrs(assignedFields(cl)))
	fmt.Fprintf(&b, "    flush := %s\n", leanCalls(callSeq(fl)))
	fmt.Fprintf(&b, "    queueConsumers := %s\n", leanStrs(consumers))
	fmt.Fprintf(&b, "    goroutines := %s\n", leanStrs(goroutines))
	fmt.Fprintf(&b, "    licenseOverrideWhenNonEmpty := %s\n", leanBool(lic))
	fmt.Fprintf(&b, "    headerSrc := %s\n", num(src))
	fmt.Fprintf(&b, "    headerVer := %s }\n", num(ver))
	b.WriteString("\nend Gen.C06\n")
	if *out == "" {
		fmt.Print(b.String())
		return
	}
	if err := os.WriteFile(*out, []byte(b.String()), 0o644); err != nil {
		fmt.Fprintln(os.Stderr, "xlate/c06:", err)
		os.Exit(1)
	}
}
