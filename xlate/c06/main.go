// xlate/c06 — tie A for property C06.
//
// Reads net/oneway/OneWayTcpClient.go with go/parser and transcribes, as Lean
// data (a value of Tcp.Facts), the facts about the source text that the
// CodeModel Golib.Tcp.Model relies on: which calls sendDirect / process() /
// send / Connect / Close / Flush make and in which order, where the send lock
// is taken and released, whether process() calls Connect while holding it,
// on which error paths Close is called, who takes from the queue, which
// goroutines are started, and how makeData picks the license.
//
// It never judges: Golib/Props/C06Gen.lean compares the record with
// Tcp.assumed by `decide`.  Shapes it does not recognise come out as values
// that cannot match (empty sequences, false).
package main

import (
	"flag"
	"fmt"
	"go/ast"
	"go/parser"
	"go/token"
	"os"
	"path/filepath"
	"sort"
	"strconv"
	"strings"
)

const lockVar = "oneWayClientSendLock"

func sel(e ast.Expr) string { // dotted path of a selector expression: this.Queue.Put
	switch x := e.(type) {
	case *ast.Ident:
		return x.Name
	case *ast.SelectorExpr:
		return sel(x.X) + "." + x.Sel.Name
	case *ast.CallExpr:
		return sel(x.Fun) + "()"
	case *ast.ParenExpr:
		return sel(x.X)
	case *ast.StarExpr:
		return sel(x.X)
	case *ast.TypeAssertExpr:
		return sel(x.X)
	}
	return "?"
}

// classify maps a call to the model's vocabulary ("" = irrelevant).
func classify(c *ast.CallExpr, recv string) string {
	p := sel(c.Fun)
	switch p {
	case lockVar + ".Lock":
		return "lock"
	case lockVar + ".Unlock":
		return "unlock"
	case recv + ".makeData":
		return "makeData"
	case recv + ".send":
		return "send"
	case recv + ".Flush":
		return "flush"
	case recv + ".Close":
		return "close"
	case recv + ".Connect":
		return "connect"
	case recv + ".sendDirect":
		return "sendDirect"
	case recv + ".Queue.Put", recv + ".Queue.PutForce":
		return "queuePut"
	case recv + ".Queue.GetTimeout", recv + ".Queue.Get":
		return "queueGetTimeout"
	case recv + ".Queue.GetNoWait":
		return "queueGetNoWait"
	case recv + ".Queue.GetCapacity":
		return "queueGetCapacity"
	case recv + ".Queue.SetCapacity":
		return "queueSetCapacity"
	case "net.DialTimeout", "net.Dial":
		return "dial"
	case "bufio.NewWriterSize", "bufio.NewWriter":
		return "newWriter"
	case recv + ".conn.Close":
		return "connClose"
	case recv + ".conn.SetWriteDeadline":
		return "setDeadline"
	case recv + ".wr.Write":
		return "bufWrite"
	case recv + ".wr.Flush":
		return "bufFlush"
	case recv + ".wr.Reset":
		return "bufReset"
	}
	// a dial through a net.Dialer value (`d.Dial`, `d.DialContext`)
	if strings.HasSuffix(p, ".Dial") || strings.HasSuffix(p, ".DialContext") {
		return "dial"
	}
	return ""
}

type fn struct {
	decl *ast.FuncDecl
	recv string
}

func callSeq(f *fn) []string {
	var out []string
	deferred := map[*ast.CallExpr]bool{}
	ast.Inspect(f.decl.Body, func(n ast.Node) bool {
		switch x := n.(type) {
		case *ast.DeferStmt:
			deferred[x.Call] = true
		case *ast.CallExpr:
			k := classify(x, f.recv)
			if k == "unlock" && deferred[x] {
				k = "deferUnlock"
			}
			if k != "" {
				out = append(out, k)
			}
		}
		return true
	})
	return out
}

func containsCall(n ast.Node, recv, kind string) bool {
	found := false
	if n == nil {
		return false
	}
	ast.Inspect(n, func(m ast.Node) bool {
		if c, ok := m.(*ast.CallExpr); ok && classify(c, recv) == kind {
			found = true
		}
		return true
	})
	return found
}

// closeOnErr: is there an `if … <kind>(…) …; err != nil { … Close() … }` in f?
func closeOnErr(f *fn, kind string) bool {
	res := false
	ast.Inspect(f.decl.Body, func(n ast.Node) bool {
		if is, ok := n.(*ast.IfStmt); ok && is.Init != nil && containsCall(is.Init, f.recv, kind) {
			if containsCall(is.Body, f.recv, "close") {
				res = true
			}
		}
		return true
	})
	return res
}

func isLockStmt(s ast.Stmt, recv, kind string) bool {
	es, ok := s.(*ast.ExprStmt)
	if !ok {
		return false
	}
	c, ok := es.X.(*ast.CallExpr)
	return ok && classify(c, recv) == kind
}

// connectLocked: every statement of f that contains a Connect call is directly
// preceded by `Lock()` and directly followed by `Unlock()` in its statement list.
func connectLocked(f *fn) bool {
	total, good := 0, 0
	var lists [][]ast.Stmt
	ast.Inspect(f.decl.Body, func(n ast.Node) bool {
		switch x := n.(type) {
		case *ast.BlockStmt:
			lists = append(lists, x.List)
		case *ast.CaseClause:
			lists = append(lists, x.Body)
		case *ast.CommClause:
			lists = append(lists, x.Body)
		}
		return true
	})
	ast.Inspect(f.decl.Body, func(n ast.Node) bool {
		if c, ok := n.(*ast.CallExpr); ok && classify(c, f.recv) == "connect" {
			total++
		}
		return true
	})
	for _, l := range lists {
		for i, s := range l {
			switch s.(type) {
			case *ast.ExprStmt, *ast.AssignStmt:
			default:
				continue // nested statements are visited through their own lists
			}
			if containsCall(s, f.recv, "connect") && i > 0 && i+1 < len(l) &&
				isLockStmt(l[i-1], f.recv, "lock") && isLockStmt(l[i+1], f.recv, "unlock") {
				good++
			}
		}
	}
	return total > 0 && total == good
}

// ---------------------------------------------------------------- statement programs (interpreted tie A)

func callKind(n ast.Node, recv string) string { // the first model-relevant call under n
	k := ""
	if n == nil {
		return k
	}
	ast.Inspect(n, func(m ast.Node) bool {
		if k != "" {
			return false
		}
		if c, ok := m.(*ast.CallExpr); ok {
			if kk := classify(c, recv); kk != "" {
				k = kk
			}
		}
		return true
	})
	return k
}

func leaves(b *ast.BlockStmt) bool { // does the block return / continue / break?
	found := false
	ast.Inspect(b, func(m ast.Node) bool {
		switch x := m.(type) {
		case *ast.ReturnStmt:
			found = true
		case *ast.BranchStmt:
			if x.Tok == token.CONTINUE || x.Tok == token.BREAK {
				found = true
			}
		}
		return true
	})
	return found
}

func lb(b bool) string {
	if b {
		return "true"
	}
	return "false"
}

// transcribe turns a statement list into the constructors of Tcp.Stmt.
func transcribe(list []ast.Stmt, recv string) []string {
	var out []string
	for i := 0; i < len(list); i++ {
		switch st := list[i].(type) {
		case *ast.ExprStmt:
			switch callKind(st, recv) {
			case "lock":
				out = append(out, ".lock")
			case "unlock":
				out = append(out, ".unlock")
			case "close":
				out = append(out, ".close")
			case "connect":
				out = append(out, ".tryConnect false")
			case "flush":
				out = append(out, ".tryFlush false false")
			case "send":
				out = append(out, ".trySend false false")
			case "queueSetCapacity":
				out = append(out, ".setCapacity")
			}
		case *ast.DeferStmt:
			if classify(st.Call, recv) == "unlock" {
				out = append(out, ".deferUnlock")
			}
		case *ast.AssignStmt:
			switch callKind(st, recv) {
			case "makeData":
				out = append(out, ".makeData")
			case "connect":
				leave := false
				for j := i + 1; j < len(list) && j <= i+2; j++ { // `if err != nil { … continue }` may follow the Unlock
					if is, ok := list[j].(*ast.IfStmt); ok && is.Init == nil && strings.HasSuffix(exprStr(is.Cond), "!=nil") {
						leave = leaves(is.Body)
					}
				}
				out = append(out, ".tryConnect "+lb(leave))
			}
		case *ast.IfStmt:
			k := ""
			if st.Init != nil {
				k = callKind(st.Init, recv)
			}
			switch {
			case k == "send":
				out = append(out, ".trySend "+lb(containsCall(st.Body, recv, "close"))+" "+lb(leaves(st.Body)))
			case k == "flush":
				out = append(out, ".tryFlush "+lb(containsCall(st.Body, recv, "close"))+" "+lb(leaves(st.Body)))
			case k == "connect":
				out = append(out, ".tryConnect "+lb(leaves(st.Body)))
			case k == "queueGetTimeout" || k == "queueGetNoWait":
				out = append(out, ".getItem")
				out = append(out, transcribe(st.Body.List, recv)...)
			case strings.Contains(exprStr(st.Cond), ".License!="):
				out = append(out, ".ifChanged")
				out = append(out, transcribe(st.Body.List, recv)...)
				out = append(out, ".endIf")
			default:
				out = append(out, transcribe(st.Body.List, recv)...)
			}
		case *ast.ReturnStmt:
			if len(st.Results) == 1 && exprStr(st.Results[0]) == "nil" {
				out = append(out, ".retNil")
			}
		case *ast.ForStmt:
			out = append(out, transcribe(st.Body.List, recv)...)
		case *ast.SelectStmt:
			for _, c := range st.Body.List {
				if cc, ok := c.(*ast.CommClause); ok && cc.Comm == nil { // default:
					out = append(out, transcribe(cc.Body, recv)...)
				}
			}
		case *ast.BlockStmt:
			out = append(out, transcribe(st.List, recv)...)
		}
	}
	return out
}

// transcribeSend: the statements of send().
func transcribeSend(f *fn) []string {
	var out []string
	// deferred recover(): does it assign the named result `err`?
	ast.Inspect(f.decl.Body, func(n ast.Node) bool {
		d, ok := n.(*ast.DeferStmt)
		if !ok {
			return true
		}
		ast.Inspect(d, func(m ast.Node) bool {
			is, ok := m.(*ast.IfStmt)
			if !ok || is.Init == nil || !strings.Contains(sel2(is.Init), "recover()") {
				return true
			}
			ast.Inspect(is.Body, func(k ast.Node) bool {
				if as, ok := k.(*ast.AssignStmt); ok && len(as.Lhs) == 1 && sel(as.Lhs[0]) == "err" && as.Tok == token.ASSIGN {
					out = append(out, ".recoverSetsErr")
				}
				return true
			})
			return false
		})
		return false
	})
	ast.Inspect(f.decl.Body, func(n ast.Node) bool {
		switch x := n.(type) {
		case *ast.IfStmt:
			if exprStr(x.Cond) == f.recv+".conn==nil" && containsCall(x.Body, f.recv, "connect") {
				out = append(out, ".ifNilConnect")
				return false
			}
		case *ast.CallExpr:
			switch classify(x, f.recv) {
			case "setDeadline":
				out = append(out, ".armDeadline")
			case "bufWrite":
				out = append(out, ".bufWrite")
			}
		}
		return true
	})
	return out
}

func sel2(n ast.Node) string { // textual form of the calls under n
	var b strings.Builder
	ast.Inspect(n, func(m ast.Node) bool {
		if c, ok := m.(*ast.CallExpr); ok {
			b.WriteString(sel(c.Fun) + "() ")
		}
		return true
	})
	return b.String()
}

// licenseExpr: the license makeData hashes into the header, as a Tcp.LicExpr.
func licenseExpr(md *fn) string {
	hashArg := func(b ast.Node, optVar string) string {
		res := ".unknown"
		ast.Inspect(b, func(m ast.Node) bool {
			if c, ok := m.(*ast.CallExpr); ok && strings.HasSuffix(sel(c.Fun), ".WriteHeader") && len(c.Args) == 4 {
				if h, ok := c.Args[3].(*ast.CallExpr); ok && len(h.Args) == 1 && strings.HasSuffix(sel(h.Fun), "Hash64Str") {
					switch a := sel(h.Args[0]); {
					case optVar != "" && a == optVar+".License":
						res = ".override"
					case a == md.recv+".License":
						res = ".client"
					}
				}
			}
			return true
		})
		return res
	}
	out := ""
	ast.Inspect(md.decl.Body, func(n ast.Node) bool {
		if out != "" {
			return false
		}
		is, ok := n.(*ast.IfStmt)
		if !ok || is.Else == nil {
			return true
		}
		cond := exprStr(is.Cond)
		for _, form := range []struct{ suffix, ctor string }{{`.License!=""`, ".ifOverrideNonEmpty"}, {`.License==""`, ".ifOverrideEmpty"}} {
			if strings.HasSuffix(cond, form.suffix) && !strings.HasPrefix(cond, md.recv+".") {
				v := strings.TrimSuffix(cond, form.suffix)
				out = fmt.Sprintf("%s %s %s", form.ctor, hashArg(is.Body, v), hashArg(is.Else, v))
			}
		}
		return true
	})
	if out == "" {
		out = hashArg(md.decl.Body, "")
	}
	return out
}

func transcribeSendFlush(f *fn) []string {
	var out []string
	for _, st := range f.decl.Body.List {
		is, ok := st.(*ast.IfStmt)
		if !ok {
			if r, ok := st.(*ast.ReturnStmt); ok && containsCall(r, f.recv, "sendDirect") {
				out = append(out, ".sendDirect")
			}
			continue
		}
		if exprStr(is.Cond) == f.recv+".UseQueue" {
			out = append(out, ".ifUseQueue")
		} else {
			out = append(out, ".ifOther")
		}
		branch := func(b ast.Node) {
			if b == nil {
				return
			}
			if containsCall(b, f.recv, "queuePut") {
				// nil exactly when Put returned true: `if ret == true { return nil } else { return errors.New(…) }`
				byResult, retNil, retErr := false, false, false
				ast.Inspect(b, func(m ast.Node) bool {
					switch x := m.(type) {
					case *ast.IfStmt:
						if c := exprStr(x.Cond); c == "ret==true" || c == "ret" {
							byResult = true
						}
					case *ast.ReturnStmt:
						if len(x.Results) == 1 {
							if exprStr(x.Results[0]) == "nil" {
								retNil = true
							} else {
								retErr = true
							}
						}
					}
					return true
				})
				out = append(out, ".queuePut "+lb(byResult && retNil && retErr))
			}
			if containsCall(b, f.recv, "sendDirect") {
				out = append(out, ".sendDirect")
			}
		}
		branch(is.Body)
		out = append(out, ".elseBranch")
		branch(is.Else)
		out = append(out, ".endIf")
	}
	return out
}

func transcribeConn(f *fn) []string {
	var out []string
	touches := func(n ast.Node) bool { // does n assign conn / wr, dial, or close the connection?
		hit := false
		ast.Inspect(n, func(m ast.Node) bool {
			switch x := m.(type) {
			case *ast.CallExpr:
				if k := classify(x, f.recv); k == "dial" || k == "connClose" {
					hit = true
				}
			case *ast.AssignStmt:
				for _, l := range x.Lhs {
					if t := sel(l); t == f.recv+".conn" || t == f.recv+".wr" {
						hit = true
					}
				}
			}
			return !hit
		})
		return hit
	}
	var walk func(list []ast.Stmt)
	walk = func(list []ast.Stmt) {
		for _, st := range list {
			switch x := st.(type) {
			case *ast.IfStmt:
				c := exprStr(x.Cond)
				switch {
				case c == f.recv+".conn!=nil" && leaves(x.Body) && x.Else == nil && !touches(x.Body):
					out = append(out, ".retIfConnSet")
				case c == f.recv+".conn==nil" && leaves(x.Body) && x.Else == nil && !touches(x.Body):
					out = append(out, ".retIfConnNil")
				case c == "err!=nil" && leaves(x.Body) && x.Else == nil && !touches(x.Body):
					// the dial failed: next server (`.dial`'s failure branch)
				case touches(x):
					// connection state changed under a condition the model does not have
					out = append(out, ".unknown")
				}
			case *ast.RangeStmt:
				walk(x.Body.List)
			case *ast.ForStmt:
				walk(x.Body.List)
			case *ast.BlockStmt:
				walk(x.List)
			case *ast.AssignStmt:
				emitted := false
				for i, l := range x.Lhs {
					switch sel(l) {
					case f.recv + ".conn":
						emitted = true
						if i < len(x.Rhs) && exprStr(x.Rhs[i]) == "nil" {
							out = append(out, ".assignConnNil")
						} else {
							out = append(out, ".assignConn")
						}
					case f.recv + ".wr":
						emitted = true
						if i < len(x.Rhs) && callKind(x.Rhs[i], f.recv) == "newWriter" {
							out = append(out, ".assignWrNew")
						} else {
							out = append(out, ".unknown")
						}
					}
				}
				if !emitted {
					switch callKind(x, f.recv) {
					case "dial":
						out = append(out, ".dial")
					case "connClose":
						out = append(out, ".connClose")
					}
				}
			case *ast.ExprStmt:
				switch callKind(x, f.recv) {
				case "dial":
					out = append(out, ".dial")
				case "connClose":
					out = append(out, ".connClose")
				}
			default:
				if touches(st) {
					out = append(out, ".unknown")
				}
			}
		}
	}
	walk(f.decl.Body.List)
	return out
}

// transcribeDialLoop: Connect()'s loop over the server list as a value of Tcp.DialLoop — does the dial stand in
// `for _, host := range this.Servers` and dial `host`; where does its deadline come from (Timeout for every
// dial: net.DialTimeout, a Dialer{Timeout: …}, a deadline / context made inside the loop; or one deadline for
// the whole list: a Dialer{Deadline: …} / context.WithTimeout made before the loop); does a failed dial go on
// to the next server; does a successful one assign conn and wr and return nil.
func transcribeDialLoop(f *fn) string {
	ranges, budget, next, stop := false, ".unknown", false, false
	var loop *ast.RangeStmt
	for _, st := range f.decl.Body.List {
		if rs, ok := st.(*ast.RangeStmt); ok && sel(rs.X) == f.recv+".Servers" {
			loop = rs
		}
	}
	if loop == nil {
		return "{ ranges := false, budget := .unknown, nextOnErr := false, stopOnOk := false }"
	}
	hostVar := ""
	if id, ok := loop.Value.(*ast.Ident); ok {
		hostVar = id.Name
	}
	// definitions of local variables (composite literals / calls), with their positions
	defs := map[string]ast.Expr{}
	defPos := map[string]token.Pos{}
	ast.Inspect(f.decl.Body, func(n ast.Node) bool {
		if as, ok := n.(*ast.AssignStmt); ok && len(as.Rhs) >= 1 {
			for i, l := range as.Lhs {
				if id, ok := l.(*ast.Ident); ok {
					r := as.Rhs[0]
					if i < len(as.Rhs) {
						r = as.Rhs[i]
					}
					defs[id.Name] = r
					defPos[id.Name] = as.Pos()
				}
			}
		}
		return true
	})
	inLoop := func(p token.Pos) bool { return p >= loop.Body.Pos() && p <= loop.Body.End() }
	dialIdx := -1
	for i, st := range loop.Body.List {
		as, ok := st.(*ast.AssignStmt)
		if !ok || len(as.Rhs) != 1 {
			continue
		}
		c, ok := as.Rhs[0].(*ast.CallExpr)
		if !ok || classify(c, f.recv) != "dial" {
			continue
		}
		dialIdx = i
		p := sel(c.Fun)
		usesHost := false
		for _, a := range c.Args {
			if id, ok := a.(*ast.Ident); ok && id.Name == hostVar && hostVar != "" {
				usesHost = true
			}
		}
		ranges = usesHost
		switch {
		case p == "net.DialTimeout" && len(c.Args) == 3:
			budget = ".perServer"
		case p == "net.Dial":
			budget = ".unknown" // no deadline at all
		default:
			// d.Dial / d.DialContext: look at how d (and the context) were made
			recvName := strings.TrimSuffix(strings.TrimSuffix(p, ".DialContext"), ".Dial")
			def := defs[recvName]
			if u, ok := def.(*ast.UnaryExpr); ok {
				def = u.X
			}
			keys := map[string]bool{}
			if cl, ok := def.(*ast.CompositeLit); ok && strings.HasSuffix(sel(cl.Type), "Dialer") {
				for _, el := range cl.Elts {
					if kv, ok := el.(*ast.KeyValueExpr); ok {
						keys[sel(kv.Key)] = true
					}
				}
			}
			switch {
			case strings.HasSuffix(p, ".DialContext") && len(c.Args) > 0:
				if id, ok := c.Args[0].(*ast.Ident); ok {
					if cd, ok := defs[id.Name].(*ast.CallExpr); ok && (sel(cd.Fun) == "context.WithTimeout" || sel(cd.Fun) == "context.WithDeadline") {
						if inLoop(defPos[id.Name]) {
							budget = ".perServer"
						} else {
							budget = ".shared"
						}
					}
				}
			case keys["Deadline"]:
				if inLoop(defPos[recvName]) {
					budget = ".perServer"
				} else {
					budget = ".shared"
				}
			case keys["Timeout"]:
				budget = ".perServer"
			}
		}
	}
	touches := func(n ast.Node) bool {
		hit := false
		ast.Inspect(n, func(m ast.Node) bool {
			if as, ok := m.(*ast.AssignStmt); ok {
				for _, l := range as.Lhs {
					if t := sel(l); t == f.recv+".conn" || t == f.recv+".wr" {
						hit = true
					}
				}
			}
			return !hit
		})
		return hit
	}
	if dialIdx >= 0 && dialIdx+1 < len(loop.Body.List) {
		if is, ok := loop.Body.List[dialIdx+1].(*ast.IfStmt); ok && exprStr(is.Cond) == "err!=nil" && is.Else == nil && len(is.Body.List) > 0 && !touches(is.Body) {
			if br, ok := is.Body.List[len(is.Body.List)-1].(*ast.BranchStmt); ok && br.Tok == token.CONTINUE {
				next = true
			}
		}
		rest := loop.Body.List[dialIdx+2:]
		if len(rest) > 0 {
			if r, ok := rest[len(rest)-1].(*ast.ReturnStmt); ok && len(r.Results) == 1 && exprStr(r.Results[0]) == "nil" {
				conn, wr := false, false
				for _, st := range rest {
					if as, ok := st.(*ast.AssignStmt); ok {
						for _, l := range as.Lhs {
							switch sel(l) {
							case f.recv + ".conn":
								conn = true
							case f.recv + ".wr":
								wr = true
							}
						}
					}
				}
				stop = conn && wr
			}
		}
	}
	return fmt.Sprintf("{ ranges := %s, budget := %s, nextOnErr := %s, stopOnOk := %s }", leanBool(ranges), budget, leanBool(next), leanBool(stop))
}

// queueGoStmts: `go` statements in util/queue/RequestQueue.go.  The model's queue has exactly the consumers
// that call it; a queue that starts goroutines of its own (a helper that waits in Get, say) is another consumer.
func queueGoStmts(repo string) int {
	fset := token.NewFileSet()
	f, err := parser.ParseFile(fset, filepath.Join(repo, "util", "queue", "RequestQueue.go"), nil, 0)
	if err != nil {
		fmt.Fprintln(os.Stderr, "xlate/c06:", err)
		os.Exit(1)
	}
	n := 0
	ast.Inspect(f, func(m ast.Node) bool {
		if _, ok := m.(*ast.GoStmt); ok {
			n++
		}
		return true
	})
	return n
}

func leanList(xs []string) string { return "[" + strings.Join(xs, ", ") + "]" }

// closeLocked: every statement that calls Close() is directly preceded (possibly with Connect-free
// assignments in between) by Lock in its list — same sibling rule as connectLocked, for Close.
func closeLocked(f *fn) bool {
	ok := true
	var lists [][]ast.Stmt
	ast.Inspect(f.decl.Body, func(n ast.Node) bool {
		if b, isB := n.(*ast.BlockStmt); isB {
			lists = append(lists, b.List)
		}
		return true
	})
	for _, l := range lists {
		for i, s := range l {
			if es, isE := s.(*ast.ExprStmt); isE && callKind(es, f.recv) == "close" {
				// walk outwards: some enclosing list must have Lock before and Unlock after this position;
				// approximated lexically over the whole function
				_ = i
				if !lexicallyLocked(f, es.Pos()) {
					ok = false
				}
			}
		}
	}
	return ok
}

// allLexicallyLocked: every Close / Connect call of f lies between a Lock and the next Unlock.
func allLexicallyLocked(f *fn) bool {
	ok, n := true, 0
	ast.Inspect(f.decl.Body, func(m ast.Node) bool {
		if c, isC := m.(*ast.CallExpr); isC {
			if k := classify(c, f.recv); k == "close" || k == "connect" {
				n++
				if !lexicallyLocked(f, c.Pos()) {
					ok = false
				}
			}
		}
		return true
	})
	return ok && n > 0
}

func lexicallyLocked(f *fn, pos token.Pos) bool {
	held := false
	res := false
	ast.Inspect(f.decl.Body, func(n ast.Node) bool {
		if c, ok := n.(*ast.CallExpr); ok {
			switch classify(c, f.recv) {
			case "lock":
				if c.Pos() < pos {
					held = true
				}
			case "unlock":
				if c.Pos() < pos {
					held = false
				}
			}
		}
		return true
	})
	res = held
	return res
}

func exprStr(e ast.Expr) string {
	switch x := e.(type) {
	case *ast.BinaryExpr:
		return exprStr(x.X) + x.Op.String() + exprStr(x.Y)
	case *ast.BasicLit:
		return x.Value
	case *ast.Ident, *ast.SelectorExpr:
		return sel(e)
	case *ast.ParenExpr:
		return exprStr(x.X)
	}
	return "?"
}

func assignedFields(f *fn) []string {
	var out []string
	seen := map[string]bool{}
	ast.Inspect(f.decl.Body, func(n ast.Node) bool {
		if as, ok := n.(*ast.AssignStmt); ok {
			for _, l := range as.Lhs {
				p := sel(l)
				if strings.HasPrefix(p, f.recv+".") {
					name := strings.TrimPrefix(p, f.recv+".")
					if !seen[name] {
						seen[name] = true
						out = append(out, name)
					}
				}
			}
		}
		return true
	})
	return out
}

func leanCalls(xs []string) string {
	if len(xs) == 0 {
		return "[]"
	}
	ys := make([]string, len(xs))
	for i, x := range xs {
		ys[i] = "." + x
	}
	return "[" + strings.Join(ys, ", ") + "]"
}
func leanStrs(xs []string) string {
	ys := make([]string, len(xs))
	for i, x := range xs {
		ys[i] = strconv.Quote(x)
	}
	return "[" + strings.Join(ys, ", ") + "]"
}
func leanBool(b bool) string {
	if b {
		return "true"
	}
	return "false"
}

func main() {
	repo := flag.String("repo", "/repo", "repository root")
	out := flag.String("out", "", "output .lean file")
	flag.Parse()
	path := filepath.Join(*repo, "net", "oneway", "OneWayTcpClient.go")
	fset := token.NewFileSet()
	file, err := parser.ParseFile(fset, path, nil, 0)
	if err != nil {
		fmt.Fprintln(os.Stderr, "xlate/c06:", err)
		os.Exit(1)
	}
	fns := map[string]*fn{}
	consts := map[string]string{}
	var goroutines []string
	for _, d := range file.Decls {
		switch x := d.(type) {
		case *ast.FuncDecl:
			recv := ""
			if x.Recv != nil && len(x.Recv.List) == 1 && len(x.Recv.List[0].Names) == 1 {
				if strings.HasSuffix(sel(x.Recv.List[0].Type), "OneWayTcpClient") {
					recv = x.Recv.List[0].Names[0].Name
				}
			}
			if x.Body != nil {
				if recv != "" {
					fns[x.Name.Name] = &fn{x, recv}
				}
				ast.Inspect(x.Body, func(n ast.Node) bool {
					if g, ok := n.(*ast.GoStmt); ok {
						p := sel(g.Call.Fun)
						goroutines = append(goroutines, p[strings.LastIndex(p, ".")+1:])
					}
					return true
				})
			}
		case *ast.GenDecl:
			if x.Tok == token.CONST {
				for _, s := range x.Specs {
					vs := s.(*ast.ValueSpec)
					for i, n := range vs.Names {
						if i < len(vs.Values) {
							consts[n.Name] = exprStr(vs.Values[i])
						}
					}
				}
			}
		}
	}
	get := func(name string) *fn {
		if f, ok := fns[name]; ok {
			return f
		}
		return &fn{&ast.FuncDecl{Body: &ast.BlockStmt{}}, "this"}
	}
	sd, pr, sf, se, co, cl, fl, md := get("sendDirect"), get("process"), get("SendFlush"), get("send"), get("Connect"), get("Close"), get("Flush"), get("makeData")
	ac := get("ApplyConfig")

	// send(): Connect only inside `if this.conn == nil`
	sendNil := false
	connectsInSend, guardedInSend := 0, 0
	ast.Inspect(se.decl.Body, func(n ast.Node) bool {
		if c, ok := n.(*ast.CallExpr); ok && classify(c, se.recv) == "connect" {
			connectsInSend++
		}
		if is, ok := n.(*ast.IfStmt); ok && exprStr(is.Cond) == se.recv+".conn==nil" {
			ast.Inspect(is.Body, func(m ast.Node) bool {
				if c, ok := m.(*ast.CallExpr); ok && classify(c, se.recv) == "connect" {
					guardedInSend++
				}
				return true
			})
		}
		return true
	})
	sendNil = connectsInSend > 0 && connectsInSend == guardedInSend

	// Connect(): first statement `if this.conn != nil { return nil }`
	connGuard := false
	if len(co.decl.Body.List) > 0 {
		if is, ok := co.decl.Body.List[0].(*ast.IfStmt); ok && exprStr(is.Cond) == co.recv+".conn!=nil" && len(is.Body.List) == 1 {
			if r, ok := is.Body.List[0].(*ast.ReturnStmt); ok && len(r.Results) == 1 && exprStr(r.Results[0]) == "nil" {
				connGuard = true
			}
		}
	}

	// queue consumers
	var consumers []string
	for name, f := range fns {
		if containsCall(f.decl.Body, f.recv, "queueGetTimeout") || containsCall(f.decl.Body, f.recv, "queueGetNoWait") {
			consumers = append(consumers, name)
		}
	}
	sort.Strings(consumers)
	sort.Strings(goroutines)

	// makeData: if o.License != "" { WriteHeader(src, ver, pcode, hash(o.License)) } else { … hash(this.License) }
	lic := false
	src, ver := "?", "?"
	ast.Inspect(md.decl.Body, func(n ast.Node) bool {
		is, ok := n.(*ast.IfStmt)
		if !ok || is.Else == nil {
			return true
		}
		cond := exprStr(is.Cond)
		if !strings.HasSuffix(cond, `.License!=""`) || strings.HasPrefix(cond, md.recv+".") {
			return true
		}
		optVar := strings.TrimSuffix(cond, `.License!=""`)
		header := func(b ast.Node, want string) bool {
			okk := false
			ast.Inspect(b, func(m ast.Node) bool {
				if c, ok := m.(*ast.CallExpr); ok && strings.HasSuffix(sel(c.Fun), ".WriteHeader") && len(c.Args) == 4 {
					if h, ok := c.Args[3].(*ast.CallExpr); ok && len(h.Args) == 1 && sel(h.Args[0]) == want && strings.HasSuffix(sel(h.Fun), "Hash64Str") {
						okk = true
						src, ver = sel(c.Args[0]), sel(c.Args[1])
					}
				}
				return true
			})
			return okk
		}
		if header(is.Body, optVar+".License") && header(is.Else, md.recv+".License") {
			lic = true
		}
		return true
	})
	num := func(name string) string {
		if v, ok := consts[name]; ok {
			if _, err := strconv.Atoi(v); err == nil {
				return v
			}
		}
		return "999"
	}

	var b strings.Builder
	b.WriteString("-- generated by xlate/c06 from net/oneway/OneWayTcpClient.go — do not edit\n")
	b.WriteString("import Golib.Tcp.Facts\nimport Golib.Tcp.Interp\nimport Golib.Tcp.Dial\n\nnamespace Gen.C06\nopen Tcp\n\n")
	b.WriteString("def facts : Facts :=\n")
	fmt.Fprintf(&b, "  { sendDirect := %s\n", leanCalls(callSeq(sd)))
	fmt.Fprintf(&b, "    directCloseOnSendErr := %s\n", leanBool(closeOnErr(sd, "send")))
	fmt.Fprintf(&b, "    directCloseOnFlushErr := %s\n", leanBool(closeOnErr(sd, "flush")))
	fmt.Fprintf(&b, "    process := %s\n", leanCalls(callSeq(pr)))
	fmt.Fprintf(&b, "    applyConfig := %s\n", leanCalls(callSeq(ac)))
	fmt.Fprintf(&b, "    applyConfigLocked := %s\n", leanBool(allLexicallyLocked(ac)))
	fmt.Fprintf(&b, "    processConnectLocked := %s\n", leanBool(connectLocked(pr)))
	fmt.Fprintf(&b, "    processCloseOnSendErr := %s\n", leanBool(closeOnErr(pr, "send")))
	fmt.Fprintf(&b, "    processCloseOnFlushErr := %s\n", leanBool(closeOnErr(pr, "flush")))
	fmt.Fprintf(&b, "    sendFlush := %s\n", leanCalls(callSeq(sf)))
	fmt.Fprintf(&b, "    send := %s\n", leanCalls(callSeq(se)))
	fmt.Fprintf(&b, "    sendConnectsOnlyWhenNil := %s\n", leanBool(sendNil))
	fmt.Fprintf(&b, "    connect := %s\n", leanCalls(callSeq(co)))
	fmt.Fprintf(&b, "    connectGuarded := %s\n", leanBool(connGuard))
	fmt.Fprintf(&b, "    connectAssigns := %s\n", leanStrs(assignedFields(co)))
	fmt.Fprintf(&b, "    close := %s\n", leanCalls(callSeq(cl)))
	fmt.Fprintf(&b, "    closeAssigns := %s\n", leanStrs(assignedFields(cl)))
	fmt.Fprintf(&b, "    flush := %s\n", leanCalls(callSeq(fl)))
	fmt.Fprintf(&b, "    queueConsumers := %s\n", leanStrs(consumers))
	fmt.Fprintf(&b, "    goroutines := %s\n", leanStrs(goroutines))
	fmt.Fprintf(&b, "    queueGoStmts := %d\n", queueGoStmts(*repo))
	fmt.Fprintf(&b, "    licenseOverrideWhenNonEmpty := %s\n", leanBool(lic))
	fmt.Fprintf(&b, "    headerSrc := %s\n", num(src))
	fmt.Fprintf(&b, "    headerVer := %s }\n", num(ver))
	// the statement programs, interpreted in Golib.Tcp.Interp
	procAll := transcribe(pr.decl.Body.List, pr.recv)
	top, item := procAll, []string{}
	for i, x := range procAll {
		if x == ".getItem" {
			top, item = procAll[:i+1], procAll[i+1:]
			break
		}
	}
	b.WriteString("\ndef progs : Progs :=\n")
	fmt.Fprintf(&b, "  { sendDirect := %s\n", leanList(transcribe(sd.decl.Body.List, sd.recv)))
	fmt.Fprintf(&b, "    send := %s\n", leanList(transcribeSend(se)))
	fmt.Fprintf(&b, "    procTop := %s\n", leanList(top))
	fmt.Fprintf(&b, "    procItem := %s\n", leanList(item))
	fmt.Fprintf(&b, "    applyConfig := %s }\n", leanList(transcribe(ac.decl.Body.List, ac.recv)))
	sendIs := false
	if sf0 := get("Send"); len(sf0.decl.Body.List) == 1 {
		if r, ok := sf0.decl.Body.List[0].(*ast.ReturnStmt); ok && len(r.Results) == 1 {
			if c, ok := r.Results[0].(*ast.CallExpr); ok && sel(c.Fun) == sf0.recv+".SendFlush" && len(c.Args) >= 2 && exprStr(c.Args[1]) == "false" {
				sendIs = true
			}
		}
	}
	b.WriteString("\ndef bodies : Bodies :=\n")
	fmt.Fprintf(&b, "  { license := %s\n", licenseExpr(md))
	fmt.Fprintf(&b, "    headerSrc := %s\n", num(src))
	fmt.Fprintf(&b, "    headerVer := %s\n", num(ver))
	fmt.Fprintf(&b, "    sendFlush := %s\n", leanList(transcribeSendFlush(sf)))
	fmt.Fprintf(&b, "    sendIsSendFlushFalse := %s\n", leanBool(sendIs))
	fmt.Fprintf(&b, "    connect := %s\n", leanList(transcribeConn(co)))
	fmt.Fprintf(&b, "    close := %s }\n", leanList(transcribeConn(cl)))
	b.WriteString("\n/-- Connect()'s loop over the server list -/\ndef dialLoop : DialLoop :=\n")
	fmt.Fprintf(&b, "  %s\n", transcribeDialLoop(co))
	b.WriteString("\nend Gen.C06\n")
	if *out == "" {
		fmt.Print(b.String())
		return
	}
	if err := os.WriteFile(*out, []byte(b.String()), 0o644); err != nil {
		fmt.Fprintln(os.Stderr, "xlate/c06:", err)
		os.Exit(1)
	}
}
