// xlate/c17 — tie A for property C17.
//
// Transcribes facts of logger/logfile/FileLogger.go (and the constants it uses from
// logger/Logger.go and util/dateutil/DateTimeHelper.go) into Lean data
// (lean/Golib/Gen/C17.lean).  It never judges: the obligations over these data are in
// lean/Golib/Props/C17Gen.lean.
//
// Facts (per function of FileLogger):
//   guards   every `if cond { return … | continue }` whose body is that single statement:
//            (function, "return"/"continue", cond)
//   calls    every call of a selected callee (Println, os.Open, os.OpenFile, os.Remove, ReadAt,
//            NewLogData, lastLog.Put, SetMax, filepath.Rel): (function, rendered call)
//   returns  rendered results of `build` and `checkOk`
//   conds    the conditions of process() and the condition under which os.Remove is called
//   gates    per entry point: operator and level constant of the first guard on this.conf.level
//   consts   defaultLogIDPrefixLength, the SetMax argument, MILLIS_PER_MINUTE, LOG_LEVEL_*
//   order    in process(): is openFile() called before the old handle is closed
//
// Expressions are rendered in a normal form that does not depend on the names of local
// variables or on the order of independent statements: a local that is defined once by `:=`
// is replaced by its definition; every other local (parameter, loop variable, reassigned
// variable) is written $1, $2, … in order of first occurrence within the fact.
package main

import (
	"flag"
	"fmt"
	"go/ast"
	"go/parser"
	"go/token"
	"os"
	"path/filepath"
	"sort"
	"strconv"
	"strings"
)

var fset = token.NewFileSet()

func parse(path string) *ast.File {
	f, err := parser.ParseFile(fset, path, nil, 0)
	if err != nil {
		fmt.Fprintln(os.Stderr, err)
		os.Exit(1)
	}
	return f
}

type fn struct {
	name  string
	decl  *ast.FuncDecl
	defs  map[*ast.Object]ast.Expr
	count map[*ast.Object]int
}

// analyse records, per declared object (the parser's scope resolution), how often it is
// assigned and, when it is defined by a single-valued `:=`, its definition.
func analyse(d *ast.FuncDecl) *fn {
	f := &fn{name: d.Name.Name, decl: d, defs: map[*ast.Object]ast.Expr{}, count: map[*ast.Object]int{}}
	pin := func(fl *ast.FieldList) {
		if fl == nil {
			return
		}
		for _, p := range fl.List {
			for _, n := range p.Names {
				if n.Obj != nil {
					f.count[n.Obj] = 2 // never inlined
				}
			}
		}
	}
	pin(d.Type.Params)
	pin(d.Type.Results)
	ast.Inspect(d.Body, func(n ast.Node) bool {
		switch s := n.(type) {
		case *ast.FuncLit:
			pin(s.Type.Params)
			pin(s.Type.Results)
		case *ast.AssignStmt:
			for _, l := range s.Lhs {
				if id, ok := l.(*ast.Ident); ok && id.Name != "_" && id.Obj != nil {
					f.count[id.Obj]++
				}
			}
			if s.Tok == token.DEFINE && len(s.Lhs) == 1 && len(s.Rhs) == 1 {
				if id, ok := s.Lhs[0].(*ast.Ident); ok && id.Obj != nil {
					f.defs[id.Obj] = s.Rhs[0]
				}
			}
		case *ast.IncDecStmt:
			if id, ok := s.X.(*ast.Ident); ok && id.Obj != nil {
				f.count[id.Obj] += 2
			}
		case *ast.RangeStmt:
			for _, e := range []ast.Expr{s.Key, s.Value} {
				if id, ok := e.(*ast.Ident); ok && id.Name != "_" && id.Obj != nil {
					f.count[id.Obj] = 2
				}
			}
		case *ast.DeclStmt:
			if gd, ok := s.Decl.(*ast.GenDecl); ok {
				for _, sp := range gd.Specs {
					if vs, ok := sp.(*ast.ValueSpec); ok {
						for _, nm := range vs.Names {
							if nm.Obj != nil {
								f.count[nm.Obj]++
							}
						}
					}
				}
			}
		}
		return true
	})
	return f
}

func (f *fn) isLocal(id *ast.Ident) bool {
	if id.Obj == nil || id.Obj.Kind != ast.Var {
		return false
	}
	if id.Name == "this" {
		return false
	}
	_, ok := f.count[id.Obj]
	return ok
}

// this.settings(): the accessor introduced by the repair of the settings race; the translator
// reads `this.settings().f` as `this.conf.f` and transcribes the accessor's body as a fact.
func isSettingsCall(e ast.Expr) bool {
	c, ok := e.(*ast.CallExpr)
	if !ok || len(c.Args) != 0 {
		return false
	}
	sel, ok := c.Fun.(*ast.SelectorExpr)
	if !ok || sel.Sel.Name != "settings" {
		return false
	}
	id, ok := sel.X.(*ast.Ident)
	return ok && id.Name == "this"
}

type renderer struct {
	f     *fn
	names map[*ast.Object]int
	depth int
}

func (f *fn) newRenderer() *renderer { return &renderer{f: f, names: map[*ast.Object]int{}} }

func (f *fn) render(e ast.Expr) string { return f.newRenderer().expr(e) }

func (r *renderer) exprs(es []ast.Expr) string {
	var parts []string
	for _, e := range es {
		parts = append(parts, r.expr(e))
	}
	return strings.Join(parts, ", ")
}

func (r *renderer) expr(e ast.Expr) string {
	switch x := e.(type) {
	case nil:
		return ""
	case *ast.Ident:
		if r.f.isLocal(x) {
			if d, ok := r.f.defs[x.Obj]; ok && r.f.count[x.Obj] == 1 && r.depth < 40 {
				r.depth++
				s := r.expr(d)
				r.depth--
				if _, simple := d.(*ast.CallExpr); simple {
					return s
				}
				if _, simple := d.(*ast.SelectorExpr); simple {
					return s
				}
				if _, simple := d.(*ast.BasicLit); simple {
					return s
				}
				return "(" + s + ")"
			}
			k, ok := r.names[x.Obj]
			if !ok {
				k = len(r.names) + 1
				r.names[x.Obj] = k
			}
			return "$" + strconv.Itoa(k)
		}
		return x.Name
	case *ast.BasicLit:
		return x.Value
	case *ast.ParenExpr:
		return "(" + r.expr(x.X) + ")"
	case *ast.BinaryExpr:
		return r.expr(x.X) + " " + x.Op.String() + " " + r.expr(x.Y)
	case *ast.UnaryExpr:
		return x.Op.String() + r.expr(x.X)
	case *ast.StarExpr:
		return "*" + r.expr(x.X)
	case *ast.SelectorExpr:
		if isSettingsCall(x.X) {
			return "this.conf." + x.Sel.Name // this.settings() is a locked copy of this.conf (see settingsAccessor)
		}
		return r.expr(x.X) + "." + x.Sel.Name
	case *ast.CallExpr:
		s := r.expr(x.Fun) + "(" + r.exprs(x.Args)
		if x.Ellipsis.IsValid() {
			s += "..."
		}
		return s + ")"
	case *ast.IndexExpr:
		return r.expr(x.X) + "[" + r.expr(x.Index) + "]"
	case *ast.SliceExpr:
		return r.expr(x.X) + "[" + r.expr(x.Low) + ":" + r.expr(x.High) + "]"
	case *ast.ArrayType:
		return "[" + r.expr(x.Len) + "]" + r.expr(x.Elt)
	case *ast.FuncLit:
		return "func" + r.funcLit(x)
	case *ast.CompositeLit:
		return r.expr(x.Type) + "{" + r.exprs(x.Elts) + "}"
	case *ast.KeyValueExpr:
		return r.expr(x.Key) + ": " + r.expr(x.Value)
	case *ast.Ellipsis:
		return "..." + r.expr(x.Elt)
	case *ast.InterfaceType:
		return "interface{}"
	}
	return fmt.Sprintf("<%T>", e)
}

// a function literal used as a predicate: render its single return expression
func (r *renderer) funcLit(x *ast.FuncLit) string {
	if len(x.Body.List) == 1 {
		if rs, ok := x.Body.List[0].(*ast.ReturnStmt); ok {
			return "{" + r.exprs(rs.Results) + "}"
		}
	}
	return "{…}"
}


// ---------------------------------------------------------------- expression IR (interpreted tie A)

type irCtx struct {
	f      *fn
	params map[*ast.Object]int
	multi  map[*ast.Object]int
	tuple  map[*ast.Object]tupleDef
	rangeV map[*ast.Object]string
	lits   map[*ast.Object]int
}

type tupleDef struct {
	rhs ast.Expr
	idx int
}

func newIR(f *fn) *irCtx {
	c := &irCtx{f: f, params: map[*ast.Object]int{}, multi: map[*ast.Object]int{}, tuple: map[*ast.Object]tupleDef{}, rangeV: map[*ast.Object]string{}, lits: map[*ast.Object]int{}}
	i := 0
	if f.decl.Type.Params != nil {
		for _, p := range f.decl.Type.Params.List {
			for _, n := range p.Names {
				if n.Obj != nil {
					c.params[n.Obj] = i
				}
				i++
			}
		}
	}
	ast.Inspect(f.decl.Body, func(n ast.Node) bool {
		switch s := n.(type) {
		case *ast.FuncLit:
			k := 0
			if s.Type.Params != nil {
				for _, p := range s.Type.Params.List {
					for _, nm := range p.Names {
						if nm.Obj != nil {
							c.lits[nm.Obj] = k
						}
						k++
					}
				}
			}
		case *ast.RangeStmt:
			if id, ok := s.Key.(*ast.Ident); ok && id.Obj != nil {
				c.rangeV[id.Obj] = "#rk"
			}
			if id, ok := s.Value.(*ast.Ident); ok && id.Obj != nil {
				c.rangeV[id.Obj] = "#rv"
			}
		case *ast.AssignStmt:
			if s.Tok == token.DEFINE && len(s.Lhs) > 1 && len(s.Rhs) == 1 {
				for k, l := range s.Lhs {
					if id, ok := l.(*ast.Ident); ok && id.Obj != nil && id.Name != "_" {
						if _, seen := c.tuple[id.Obj]; !seen && f.count[id.Obj] == 1 {
							c.tuple[id.Obj] = tupleDef{s.Rhs[0], k}
						}
					}
				}
			}
			for _, l := range s.Lhs {
				if id, ok := l.(*ast.Ident); ok && id.Obj != nil && id.Name != "_" {
					if _, isP := c.params[id.Obj]; isP {
						continue
					}
					if f.count[id.Obj] > 1 {
						if _, seen := c.multi[id.Obj]; !seen {
							c.multi[id.Obj] = len(c.multi)
						}
					}
				}
			}
		case *ast.DeclStmt:
			if gd, ok := s.Decl.(*ast.GenDecl); ok {
				for _, sp := range gd.Specs {
					if vs, ok := sp.(*ast.ValueSpec); ok {
						for _, nm := range vs.Names {
							if nm.Obj != nil {
								if _, seen := c.multi[nm.Obj]; !seen {
									c.multi[nm.Obj] = len(c.multi)
								}
							}
						}
					}
				}
			}
		}
		return true
	})
	return c
}

func q(s string) string { return strconv.Quote(s) }

// a chain of selectors over a non-local identifier, e.g. this.conf.logID, filepath.Separator
func (c *irCtx) path(e ast.Expr) (string, bool) {
	switch x := e.(type) {
	case *ast.Ident:
		if c.f.isLocal(x) {
			return "", false
		}
		return x.Name, true
	case *ast.SelectorExpr:
		if isSettingsCall(x.X) {
			return "this.conf." + x.Sel.Name, true
		}
		if p, ok := c.path(x.X); ok {
			return p + "." + x.Sel.Name, true
		}
	}
	return "", false
}

func (c *irCtx) ir(e ast.Expr, depth int) string {
	if depth > 40 {
		return "(.opaque \"deep\")"
	}
	switch x := e.(type) {
	case *ast.ParenExpr:
		return c.ir(x.X, depth+1)
	case *ast.Ident:
		if c.f.isLocal(x) {
			if k, ok := c.lits[x.Obj]; ok {
				return fmt.Sprintf("(.var \"#l%d\")", k)
			}
			if k, ok := c.params[x.Obj]; ok {
				return fmt.Sprintf("(.var \"#p%d\")", k)
			}
			if n, ok := c.rangeV[x.Obj]; ok {
				return fmt.Sprintf("(.var %s)", q(n))
			}
			if d, ok := c.f.defs[x.Obj]; ok && c.f.count[x.Obj] == 1 {
				return c.ir(d, depth+1)
			}
			if t, ok := c.tuple[x.Obj]; ok {
				return fmt.Sprintf("(.call1 \"#proj%d\" %s)", t.idx, c.ir(t.rhs, depth+1))
			}
			if k, ok := c.multi[x.Obj]; ok {
				return fmt.Sprintf("(.var \"#m%d\")", k)
			}
			return fmt.Sprintf("(.opaque %s)", q("local "+x.Name))
		}
		return fmt.Sprintf("(.var %s)", q(x.Name))
	case *ast.BasicLit:
		switch x.Kind {
		case token.INT:
			if v, err := strconv.ParseInt(x.Value, 0, 64); err == nil {
				return fmt.Sprintf("(.int %d)", v)
			}
		case token.STRING:
			if v, err := strconv.Unquote(x.Value); err == nil {
				return fmt.Sprintf("(.str %s)", q(v))
			}
		case token.CHAR:
			if v, err := strconv.Unquote(x.Value); err == nil && len([]rune(v)) == 1 {
				return fmt.Sprintf("(.int %d)", []rune(v)[0])
			}
		}
		return fmt.Sprintf("(.opaque %s)", q(x.Value))
	case *ast.BinaryExpr:
		return fmt.Sprintf("(.bin %s %s %s)", q(x.Op.String()), c.ir(x.X, depth+1), c.ir(x.Y, depth+1))
	case *ast.UnaryExpr:
		return fmt.Sprintf("(.un %s %s)", q(x.Op.String()), c.ir(x.X, depth+1))
	case *ast.SelectorExpr:
		if p, ok := c.path(x); ok {
			return fmt.Sprintf("(.var %s)", q(p))
		}
		return fmt.Sprintf("(.call1 %s %s)", q("."+x.Sel.Name), c.ir(x.X, depth+1))
	case *ast.SliceExpr:
		lo, hi := "(.int 0)", ""
		if x.Low != nil {
			lo = c.ir(x.Low, depth+1)
		}
		if x.High != nil {
			hi = c.ir(x.High, depth+1)
		} else {
			hi = fmt.Sprintf("(.call1 \"len\" %s)", c.ir(x.X, depth+1))
		}
		return fmt.Sprintf("(.slice %s %s %s)", c.ir(x.X, depth+1), lo, hi)
	case *ast.FuncLit:
		if len(x.Body.List) == 1 {
			if rs, ok := x.Body.List[0].(*ast.ReturnStmt); ok && len(rs.Results) == 1 {
				return fmt.Sprintf("(.pred %s)", c.ir(rs.Results[0], depth+1))
			}
		}
		return "(.opaque \"func\")"
	case *ast.ArrayType:
		return fmt.Sprintf("(.opaque %s)", q(c.f.render(x)))
	case *ast.CallExpr:
		var args []string
		name := ""
		switch fun := x.Fun.(type) {
		case *ast.Ident:
			name = fun.Name
		case *ast.SelectorExpr:
			if p, ok := c.path(fun); ok {
				name = p
			} else {
				name = "." + fun.Sel.Name
				args = append(args, c.ir(fun.X, depth+1))
			}
		default:
			return fmt.Sprintf("(.opaque %s)", q(c.f.render(x)))
		}
		for _, a := range x.Args {
			args = append(args, c.ir(a, depth+1))
		}
		if len(args) > 3 {
			return fmt.Sprintf("(.opaque %s)", q(c.f.render(x)))
		}
		return fmt.Sprintf("(.call%d %s%s)", len(args), q(name), func() string {
			if len(args) == 0 {
				return ""
			}
			return " " + strings.Join(args, " ")
		}())
	}
	return fmt.Sprintf("(.opaque %s)", q(c.f.render(e)))
}

type irFacts struct {
	checkOkConds, checkOkPut                         []string
	readGuards, readSets, readAtArgs, readNewLogData []string
	readNext, readNextInit                           []string
	retentionGuards, retentionReturns, removeCond    []string
}

func collectIR(f *fn, out *irFacts) {
	c := newIR(f)
	ast.Inspect(f.decl.Body, func(n ast.Node) bool {
		switch s := n.(type) {
		case *ast.IfStmt:
			single := len(s.Body.List) == 1
			kind := ""
			if single && s.Else == nil {
				switch b := s.Body.List[0].(type) {
				case *ast.ReturnStmt:
					kind = "return"
				case *ast.BranchStmt:
					if b.Tok == token.CONTINUE {
						kind = "continue"
					}
				case *ast.AssignStmt:
					if len(b.Lhs) == 1 && len(b.Rhs) == 1 {
						kind = "set"
					}
				}
			}
			switch f.name {
			case "checkOk":
				out.checkOkConds = append(out.checkOkConds, c.ir(s.Cond, 0))
			case "Read":
				switch kind {
				case "return":
					out.readGuards = append(out.readGuards, c.ir(s.Cond, 0))
				case "set":
					a := s.Body.List[0].(*ast.AssignStmt)
					out.readSets = append(out.readSets, fmt.Sprintf("(%s, %s, %s)", c.ir(s.Cond, 0), c.ir(a.Lhs[0], 0), c.ir(a.Rhs[0], 0)))
				}
				if single && s.Else != nil {
					if eb, ok := s.Else.(*ast.BlockStmt); ok && len(eb.List) == 1 {
						a, ok1 := s.Body.List[0].(*ast.AssignStmt)
						b, ok2 := eb.List[0].(*ast.AssignStmt)
						if ok1 && ok2 && len(a.Rhs) == 1 && len(b.Rhs) == 1 {
							out.readNext = append(out.readNext, c.ir(s.Cond, 0), c.ir(a.Rhs[0], 0), fmt.Sprintf("(.str %s)", q(b.Tok.String())), c.ir(b.Rhs[0], 0))
							// the first value of that variable: its `:=` definition
							if id, ok := a.Lhs[0].(*ast.Ident); ok && id.Obj != nil {
								ast.Inspect(f.decl.Body, func(m ast.Node) bool {
									if as, ok := m.(*ast.AssignStmt); ok && as.Tok == token.DEFINE && len(as.Lhs) == 1 && len(as.Rhs) == 1 {
										if l, ok := as.Lhs[0].(*ast.Ident); ok && l.Obj == id.Obj {
											out.readNextInit = append(out.readNextInit, c.ir(as.Lhs[0], 0), c.ir(as.Rhs[0], 0))
										}
									}
									return true
								})
							}
						}
					}
				}
			case "clearOldLog":
				switch kind {
				case "continue":
					out.retentionGuards = append(out.retentionGuards, c.ir(s.Cond, 0))
				case "return":
					out.retentionReturns = append(out.retentionReturns, c.ir(s.Cond, 0))
				}
				hasRemove := false
				for _, st := range s.Body.List {
					ast.Inspect(st, func(m ast.Node) bool {
						if ce, ok := m.(*ast.CallExpr); ok && strings.HasSuffix(f.render(ce.Fun), "os.Remove") {
							hasRemove = true
						}
						return true
					})
				}
				if hasRemove {
					out.removeCond = append(out.removeCond, c.ir(s.Cond, 0))
				}
			}
		case *ast.CallExpr:
			callee := f.render(s.Fun)
			argsIR := func() []string {
				var a []string
				for _, x := range s.Args {
					a = append(a, c.ir(x, 0))
				}
				return a
			}
			switch {
			case f.name == "checkOk" && strings.HasSuffix(callee, "lastLog.Put"):
				out.checkOkPut = append(out.checkOkPut, argsIR()...)
			case f.name == "Read" && strings.HasSuffix(callee, ".ReadAt"):
				out.readAtArgs = append(out.readAtArgs, argsIR()...)
			case f.name == "Read" && strings.HasSuffix(callee, "NewLogData"):
				out.readNewLogData = append(out.readNewLogData, argsIR()...)
			}
		}
		return true
	})
}

func (o *irFacts) write(b *strings.Builder) {
	list := func(name, typ string, xs []string) {
		fmt.Fprintf(b, "def %s : List (%s) := [\n", name, typ)
		for i, x := range xs {
			sep := ","
			if i == len(xs)-1 {
				sep = ""
			}
			fmt.Fprintf(b, "  %s%s\n", x, sep)
		}
		b.WriteString("]\n\n")
	}
	list("checkOkConds", "E", o.checkOkConds)
	list("checkOkPut", "E", o.checkOkPut)
	list("readGuards", "E", o.readGuards)
	list("readSets", "E × E × E", o.readSets)
	list("readAtArgs", "E", o.readAtArgs)
	list("readNewLogData", "E", o.readNewLogData)
	list("readNext", "E", o.readNext)
	list("readNextInit", "E", o.readNextInit)
	list("retentionGuards", "E", o.retentionGuards)
	list("retentionReturns", "E", o.retentionReturns)
	list("removeCond", "E", o.removeCond)
}

var selected = []string{"myLog.Println", "os.Open", "os.OpenFile", "os.Remove", ".ReadAt", "NewLogData", "lastLog.Put", ".SetMax", "filepath.Rel", "this.println"}

// the functions the property is about
var relevant = map[string]bool{"Errorf": true, "Error": true, "Warnf": true, "Warn": true, "Infof": true, "Info": true, "Infoln": true,
	"Debugf": true, "Debug": true, "Printf": true, "Println": true, "PrintlnStd": true, "println": true, "build": true, "checkOk": true,
	"process": true, "openFile": true, "clearOldLog": true, "Read": true, "NewFileLogger": true, "run": true}

func isSelected(callee string) bool {
	for _, s := range selected {
		if strings.HasSuffix(callee, s) {
			return true
		}
	}
	return false
}

func lit(s string) string { return strconv.Quote(s) }

// integer constants of a file: name -> value (literals, identifiers, products)
func consts(files []*ast.File) map[string]int64 {
	exprs := map[string]ast.Expr{}
	for _, f := range files {
		for _, d := range f.Decls {
			gd, ok := d.(*ast.GenDecl)
			if !ok || gd.Tok != token.CONST {
				continue
			}
			for _, sp := range gd.Specs {
				vs := sp.(*ast.ValueSpec)
				for i, n := range vs.Names {
					if i < len(vs.Values) {
						exprs[n.Name] = vs.Values[i]
					}
				}
			}
		}
	}
	vals := map[string]int64{}
	var eval func(e ast.Expr, depth int) (int64, bool)
	eval = func(e ast.Expr, depth int) (int64, bool) {
		if depth > 20 {
			return 0, false
		}
		switch x := e.(type) {
		case *ast.BasicLit:
			if x.Kind == token.INT {
				v, err := strconv.ParseInt(x.Value, 0, 64)
				return v, err == nil
			}
		case *ast.Ident:
			if d, ok := exprs[x.Name]; ok {
				return eval(d, depth+1)
			}
		case *ast.SelectorExpr:
			if d, ok := exprs[x.Sel.Name]; ok {
				return eval(d, depth+1)
			}
		case *ast.ParenExpr:
			return eval(x.X, depth+1)
		case *ast.BinaryExpr:
			a, ok1 := eval(x.X, depth+1)
			b, ok2 := eval(x.Y, depth+1)
			if ok1 && ok2 {
				switch x.Op {
				case token.MUL:
					return a * b, true
				case token.ADD:
					return a + b, true
				case token.SUB:
					return a - b, true
				}
			}
		}
		return 0, false
	}
	for n, e := range exprs {
		if v, ok := eval(e, 0); ok {
			vals[n] = v
		}
	}
	return vals
}

func main() {
	repo := flag.String("repo", "/repo", "repository root")
	out := flag.String("out", "", "output Lean file")
	flag.Parse()
	fl := parse(filepath.Join(*repo, "logger/logfile/FileLogger.go"))
	lg := parse(filepath.Join(*repo, "logger/Logger.go"))
	dh := parse(filepath.Join(*repo, "util/dateutil/DateTimeHelper.go"))
	cs := consts([]*ast.File{fl, lg, dh})

	var irs irFacts
	var guards, calls, returns, conds [][]string
	var gates [][]string
	order := "unknown"
	setMax := int64(-1)

	var accessor []string
	writersLocked := true
	hasAccessor := false
	for _, d := range fl.Decls {
		if fd, ok := d.(*ast.FuncDecl); ok && fd.Body != nil && fd.Name.Name == "settings" {
			hasAccessor = true
			f := analyse(fd)
			for _, st := range fd.Body.List {
				switch x := st.(type) {
				case *ast.ExprStmt:
					accessor = append(accessor, f.render(x.X))
				case *ast.DeferStmt:
					accessor = append(accessor, "defer "+f.render(x.Call))
				case *ast.ReturnStmt:
					accessor = append(accessor, "return "+f.newRenderer().exprs(x.Results))
				default:
					accessor = append(accessor, "other")
				}
			}
		}
	}
	for _, d := range fl.Decls {
		if fd, ok := d.(*ast.FuncDecl); ok && fd.Body != nil && (fd.Name.Name == "SetLevel" || fd.Name.Name == "ApplyConfig") && hasAccessor {
			f := analyse(fd)
			ok2 := false
			if len(fd.Body.List) >= 2 {
				a, ok1 := fd.Body.List[0].(*ast.ExprStmt)
				b, okb := fd.Body.List[1].(*ast.DeferStmt)
				ok2 = ok1 && okb && f.render(a.X) == "this.confLock.Lock()" && f.render(b.Call) == "this.confLock.Unlock()"
			}
			if !ok2 {
				writersLocked = false
			}
		}
	}
	for _, d := range fl.Decls {
		fd, ok := d.(*ast.FuncDecl)
		if !ok || fd.Body == nil || !relevant[fd.Name.Name] {
			continue
		}
		f := analyse(fd)
		collectIR(f, &irs)
		gateDone := false
		ast.Inspect(fd.Body, func(n ast.Node) bool {
			switch s := n.(type) {
			case *ast.IfStmt:
				asg := func(st ast.Stmt) string {
					switch a := st.(type) {
					case *ast.AssignStmt:
						if len(a.Lhs) == 1 && len(a.Rhs) == 1 {
							r := f.newRenderer()
							c := r.expr(s.Cond)
							return c + " => " + r.expr(a.Lhs[0]) + " " + a.Tok.String() + " " + r.expr(a.Rhs[0])
						}
					}
					return ""
				}
				if len(s.Body.List) == 1 && s.Else == nil {
					if a := asg(s.Body.List[0]); a != "" && f.name == "Read" {
						guards = append(guards, []string{f.name, "set", a})
					}
				}
				if len(s.Body.List) == 1 && s.Else != nil {
					if eb, ok := s.Else.(*ast.BlockStmt); ok && len(eb.List) == 1 {
						a, b := asg(s.Body.List[0]), asg(eb.List[0])
						if a != "" && b != "" && f.name == "Read" {
							guards = append(guards, []string{f.name, "set-else", a + " ; else " + b[strings.Index(b, " => ")+4:]})
						}
					}
				}
				if len(s.Body.List) == 1 && s.Else == nil {
					kind := ""
					switch b := s.Body.List[0].(type) {
					case *ast.ReturnStmt:
						kind = "return"
					case *ast.BranchStmt:
						if b.Tok == token.CONTINUE {
							kind = "continue"
						}
					}
					if kind != "" {
						guards = append(guards, []string{f.name, kind, f.render(s.Cond)})
						if be, ok := s.Cond.(*ast.BinaryExpr); ok && !gateDone && f.render(be.X) == "this.conf.level" {
							cn := f.render(be.Y)
							cn = cn[strings.LastIndex(cn, ".")+1:]
							gates = append(gates, []string{f.name, be.Op.String(), cn})
							gateDone = true
						}
					}
				}
				// the condition under which os.Remove is reached
				hasRemove := false
				for _, st := range s.Body.List {
					ast.Inspect(st, func(m ast.Node) bool {
						if c, ok := m.(*ast.CallExpr); ok && strings.HasSuffix(f.render(c.Fun), "os.Remove") {
							hasRemove = true
						}
						return true
					})
				}
				if hasRemove {
					conds = append(conds, []string{f.name, "remove", f.render(s.Cond)})
				}
				if f.name == "process" || f.name == "checkOk" {
					conds = append(conds, []string{f.name, "if", f.render(s.Cond)})
				}
				if f.name == "process" && strings.Contains(f.render(s.Cond), "lastDataUnit") {
					// order of openFile and Close inside the rotation branch
					closeAt, openAt := -1, -1
					idx := 0
					for _, st := range s.Body.List {
						ast.Inspect(st, func(m ast.Node) bool {
							if c, ok := m.(*ast.CallExpr); ok {
								idx++
								callee := f.render(c.Fun)
								if strings.HasSuffix(callee, ".Close") && closeAt < 0 {
									closeAt = idx
								}
								if strings.HasSuffix(callee, "this.openFile") && openAt < 0 {
									openAt = idx
								}
							}
							return true
						})
					}
					if closeAt >= 0 {
						switch {
						case openAt >= 0 && openAt < closeAt:
							order = "install-then-close"
						default:
							order = "close-then-install"
						}
					}
				}
			case *ast.CallExpr:
				callee := f.render(s.Fun)
				if isSelected(callee) {
					calls = append(calls, []string{f.name, f.render(s)})
				}
				if strings.HasSuffix(callee, ".SetMax") && len(s.Args) == 1 {
					if bl, ok := s.Args[0].(*ast.BasicLit); ok {
						setMax, _ = strconv.ParseInt(bl.Value, 0, 64)
					}
				}
			case *ast.ReturnStmt:
				if (f.name == "build" || f.name == "checkOk") && len(s.Results) > 0 {
					returns = append(returns, []string{f.name, f.newRenderer().exprs(s.Results)})
				}
			}
			return true
		})
		if !gateDone {
			switch f.name {
			case "Errorf", "Error", "Warnf", "Warn", "Infof", "Info", "Infoln", "Debugf", "Debug", "Printf", "Println", "PrintlnStd":
				gates = append(gates, []string{f.name, "", ""})
			}
		}
	}

	// per entry point: formatter and the way the rate-limit id is obtained (read off the facts above)
	var methods [][]string
	for _, g := range gates {
		name := g[0]
		formatter := ""
		for _, c := range calls {
			if c[0] == name {
				if strings.Contains(c[1], "fmt.Sprintln(") {
					formatter = "Sprintln"
				} else if strings.Contains(c[1], "fmt.Sprintf($") {
					formatter = "Sprintf"
				}
			}
		}
		shape := "none"
		n := 0
		for _, gd := range guards {
			if gd[0] == name && strings.Contains(gd[2], "this.checkOk(") {
				n++
				const pre = "this.checkOk(stringutil.Truncate(fmt.Sprint"
				const post = ", this.conf.cacheInterval) == false"
				if strings.HasPrefix(gd[2], pre) && strings.HasSuffix(gd[2], post) {
					mid := gd[2][:len(gd[2])-len(post)]
					shape = "truncate:" + mid[strings.LastIndex(mid, ", ")+2:len(mid)-1]
				} else {
					shape = "other"
				}
			}
		}
		if n == 0 {
			for _, c := range calls {
				if c[0] == name && strings.HasPrefix(c[1], "this.println($1, this.build($1, ") {
					shape = "param"
				}
			}
		}
		if n > 1 {
			shape = "other"
		}
		methods = append(methods, []string{name, formatter, shape})
	}

	sortRows := func(rows [][]string) {
		sort.Slice(rows, func(i, j int) bool { return strings.Join(rows[i], "\x00") < strings.Join(rows[j], "\x00") })
	}
	for _, r := range [][][]string{guards, calls, returns, conds, gates} {
		sortRows(r)
	}
	dedup := func(rows [][]string) [][]string {
		var out [][]string
		for i, r := range rows {
			if i > 0 && strings.Join(rows[i-1], "\x00") == strings.Join(r, "\x00") {
				continue
			}
			out = append(out, r)
		}
		return out
	}
	guards, calls, returns, conds = dedup(guards), dedup(calls), dedup(returns), dedup(conds)

	var b strings.Builder
	b.WriteString("-- generated by xlate/c17 from logger/logfile/FileLogger.go, logger/Logger.go, util/dateutil/DateTimeHelper.go; do not edit\n")
	b.WriteString("import Golib.Logger.ExprIR\n\nnamespace Gen.C17\nopen Logger.IR\n\n")
	tuple := func(r []string) string {
		var q []string
		for _, x := range r {
			q = append(q, lit(x))
		}
		return "(" + strings.Join(q, ", ") + ")"
	}
	table := func(name, typ string, rows [][]string) {
		fmt.Fprintf(&b, "def %s : List (%s) := [\n", name, typ)
		for i, r := range rows {
			sep := ","
			if i == len(rows)-1 {
				sep = ""
			}
			fmt.Fprintf(&b, "  %s%s\n", tuple(r), sep)
		}
		b.WriteString("]\n\n")
	}
	table("guards", "String × String × String", guards)
	table("calls", "String × String", calls)
	table("returns", "String × String", returns)
	table("conds", "String × String × String", conds)
	table("gates", "String × String × String", gates)
	table("methods", "String × String × String", methods)
	fmt.Fprintf(&b, "def processOrder : String := %s\n\n", lit(order))
	{
		var q2 []string
		for _, a := range accessor {
			q2 = append(q2, lit(a))
		}
		fmt.Fprintf(&b, "def settingsAccessor : List String := [%s]\n\n", strings.Join(q2, ", "))
		fmt.Fprintf(&b, "def settingsWritersLocked : Bool := %v\n\n", writersLocked)
	}
	var cn []string
	for _, n := range []string{"LOG_LEVEL_ERROR", "LOG_LEVEL_WARN", "LOG_LEVEL_INFO", "LOG_LEVEL_DEBUG", "defaultLogIDPrefixLength", "MILLIS_PER_MINUTE", "MILLIS_PER_DAY"} {
		v, ok := cs[n]
		if !ok {
			v = -999
		}
		cn = append(cn, fmt.Sprintf("(%s, %d)", lit(n), v))
	}
	cn = append(cn, fmt.Sprintf("(%s, %d)", lit("lastLog.SetMax"), setMax))
	fmt.Fprintf(&b, "def consts : List (String × Int) := [%s]\n\n", strings.Join(cn, ", "))
	irs.write(&b)
	b.WriteString("end Gen.C17\n")
	if *out == "" {
		os.Stdout.WriteString(b.String())
		return
	}
	if err := os.WriteFile(*out, []byte(b.String()), 0o644); err != nil {
		fmt.Fprintln(os.Stderr, err)
		os.Exit(1)
	}
}
