module verif/xlate/c17

go 1.23
