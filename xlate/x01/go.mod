module verif/xlate/x01

go 1.23
