module verif/xlate/c05

go 1.23
