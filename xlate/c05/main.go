// xlate/c05 — tie A for property C05.
//
// Transcribes facts of the Go source into Lean data (lean/Golib/Gen/C05.lean).  It never judges:
// the obligations over these data are in lean/Golib/Props/C05Gen.lean.  A shape it does not
// recognise is emitted as an "unknown:…" entry, which makes the obligations fail.
//
// Facts:
//
//	packTypes      for the eight packs: Go type name, the constant GetPackType returns, its value
//	netSrc/netVer  the constants the one-way client passes to WriteHeader, and the argument list of
//	               both WriteHeader calls of makeData
//	writeHeader    the call sequence of io.DataOutputX.WriteHeader / WriteOneWayHeader
//	crcTable       the 256 table constants of util/hash; initial and final xor constants and the step
//	               expression of Hash64 (as text)
//	hdr            AbstractPack.Write: condition text and call skeleton of both branches
//	skeletons      for each Write method of the eight packs (and the helpers of CounterPack1): the ordered
//	               list of stream calls (method, argument text), with if/else/for structure markers
//	hitmapLength, eventKeys
package main

import (
	"bytes"
	"flag"
	"fmt"
	"go/ast"
	"go/parser"
	"go/printer"
	"go/token"
	"os"
	"path/filepath"
	"regexp"
	"strconv"
	"strings"
)

var fset = token.NewFileSet()

func parse(path string) *ast.File {
	f, err := parser.ParseFile(fset, path, nil, 0)
	if err != nil {
		fmt.Fprintln(os.Stderr, err)
		os.Exit(1)
	}
	return f
}

func text(n ast.Node) string {
	var b bytes.Buffer
	printer.Fprint(&b, fset, n)
	s := b.String()
	s = strings.Join(strings.Fields(s), " ")
	return s
}

func leanStr(s string) string {
	s = strings.ReplaceAll(s, "\\", "\\\\")
	s = strings.ReplaceAll(s, "\"", "\\\"")
	return "\"" + s + "\""
}

// consts collects `name = literal` of const blocks (integers and strings).
func consts(f *ast.File, into map[string]string) {
	for _, d := range f.Decls {
		gd, ok := d.(*ast.GenDecl)
		if !ok || gd.Tok != token.CONST {
			continue
		}
		for _, sp := range gd.Specs {
			vs := sp.(*ast.ValueSpec)
			for i, n := range vs.Names {
				if i < len(vs.Values) {
					if bl, ok := vs.Values[i].(*ast.BasicLit); ok {
						into[n.Name] = bl.Value
					}
				}
			}
		}
	}
}

func method(f *ast.File, recv, name string) *ast.FuncDecl {
	for _, d := range f.Decls {
		fd, ok := d.(*ast.FuncDecl)
		if !ok || fd.Name.Name != name || fd.Body == nil {
			continue
		}
		if recv == "" && fd.Recv == nil {
			return fd
		}
		if fd.Recv != nil && len(fd.Recv.List) == 1 {
			t := fd.Recv.List[0].Type
			if st, ok := t.(*ast.StarExpr); ok {
				t = st.X
			}
			if id, ok := t.(*ast.Ident); ok && id.Name == recv {
				return fd
			}
		}
	}
	return nil
}

type step struct{ m, a string }

// locals of a function: parameters, receiver, := / var / range names.
func localsOf(fd *ast.FuncDecl) map[string]bool {
	loc := map[string]bool{}
	if fd.Type.Params != nil {
		for _, f := range fd.Type.Params.List {
			for _, n := range f.Names {
				loc[n.Name] = true
			}
		}
	}
	ast.Inspect(fd.Body, func(n ast.Node) bool {
		switch x := n.(type) {
		case *ast.AssignStmt:
			if x.Tok == token.DEFINE {
				for _, l := range x.Lhs {
					if id, ok := l.(*ast.Ident); ok {
						loc[id.Name] = true
					}
				}
			}
		case *ast.RangeStmt:
			if x.Tok == token.DEFINE {
				for _, l := range []ast.Expr{x.Key, x.Value} {
					if id, ok := l.(*ast.Ident); ok {
						loc[id.Name] = true
					}
				}
			}
		case *ast.ValueSpec:
			for _, id := range x.Names {
				loc[id.Name] = true
			}
		}
		return true
	})
	return loc
}

// norm renders an expression with every local identifier replaced by $k (k = order of first use in
// the function), so that renaming a local variable does not change the skeleton.
type normer struct {
	loc map[string]bool
	idx map[string]int
}

func (nm *normer) text(e ast.Node) string {
	if e == nil {
		return ""
	}
	var cp ast.Node
	switch x := e.(type) {
	case ast.Expr:
		cp = nm.copyExpr(x)
	default:
		cp = e
	}
	return text(cp)
}

func (nm *normer) copyExpr(e ast.Expr) ast.Expr {
	switch x := e.(type) {
	case nil:
		return nil
	case *ast.Ident:
		if nm.loc[x.Name] {
			k, ok := nm.idx[x.Name]
			if !ok {
				k = len(nm.idx)
				nm.idx[x.Name] = k
			}
			return &ast.Ident{Name: fmt.Sprintf("_L%d", k)}
		}
		return x
	case *ast.SelectorExpr:
		return &ast.SelectorExpr{X: nm.copyExpr(x.X), Sel: x.Sel}
	case *ast.CallExpr:
		c := &ast.CallExpr{Fun: nm.copyExpr(x.Fun)}
		for _, a := range x.Args {
			c.Args = append(c.Args, nm.copyExpr(a))
		}
		return c
	case *ast.BinaryExpr:
		return &ast.BinaryExpr{X: nm.copyExpr(x.X), Op: x.Op, Y: nm.copyExpr(x.Y)}
	case *ast.UnaryExpr:
		return &ast.UnaryExpr{Op: x.Op, X: nm.copyExpr(x.X)}
	case *ast.ParenExpr:
		return &ast.ParenExpr{X: nm.copyExpr(x.X)}
	case *ast.StarExpr:
		return &ast.StarExpr{X: nm.copyExpr(x.X)}
	case *ast.IndexExpr:
		return &ast.IndexExpr{X: nm.copyExpr(x.X), Index: nm.copyExpr(x.Index)}
	case *ast.TypeAssertExpr:
		return &ast.TypeAssertExpr{X: nm.copyExpr(x.X), Type: x.Type}
	case *ast.SliceExpr:
		return &ast.SliceExpr{X: nm.copyExpr(x.X), Low: nm.copyExpr(x.Low), High: nm.copyExpr(x.High), Max: nm.copyExpr(x.Max), Slice3: x.Slice3}
	default:
		return e
	}
}

func isWriteName(n string) bool {
	for _, p := range []string{"Write", "write", "ToBytes", "Put"} {
		if strings.HasPrefix(n, p) {
			return true
		}
	}
	return false
}

// skeleton: the ordered list of stream writes of a function — calls whose method/function name starts
// with Write/write/ToBytes/Put — as (name, normalised arguments), with if/else/for markers (normalised
// conditions).  Receivers and all other statements are dropped, local names are positional, so renaming
// locals or reordering statements that do not write leaves the skeleton unchanged.
func skeleton(fd *ast.FuncDecl) []step {
	nm := &normer{loc: localsOf(fd), idx: map[string]int{}}
	if fd.Recv != nil && len(fd.Recv.List) == 1 && len(fd.Recv.List[0].Names) == 1 {
		delete(nm.loc, fd.Recv.List[0].Names[0].Name)
	}
	var out []step
	var walk func(s ast.Stmt)
	calls := func(n ast.Node) {
		ast.Inspect(n, func(x ast.Node) bool {
			c, ok := x.(*ast.CallExpr)
			if !ok {
				return true
			}
			name, full := "", ""
			switch f := c.Fun.(type) {
			case *ast.SelectorExpr:
				name = f.Sel.Name
				full = name
				// a receiver that is a field of the object is part of the layout (which map is written)
				if r := nm.text(f.X); strings.HasPrefix(r, "this.") {
					full = r + "." + name
				}
			case *ast.Ident:
				name = f.Name
				full = name
			}
			if isWriteName(name) {
				var args []string
				for _, a := range c.Args {
					args = append(args, nm.text(a))
				}
				out = append(out, step{full, strings.Join(args, ", ")})
				return false
			}
			return true
		})
	}
	block := func(l []ast.Stmt) {
		for _, t := range l {
			walk(t)
		}
	}
	walk = func(s ast.Stmt) {
		switch x := s.(type) {
		case *ast.ExprStmt:
			calls(x.X)
		case *ast.AssignStmt:
			for _, r := range x.Rhs {
				calls(r)
			}
		case *ast.IfStmt:
			mark := len(out)
			out = append(out, step{"if", nm.text(x.Cond)})
			block(x.Body.List)
			if x.Else != nil {
				out = append(out, step{"else", ""})
				switch e := x.Else.(type) {
				case *ast.BlockStmt:
					block(e.List)
				default:
					walk(e)
				}
			}
			out = append(out, step{"end", ""})
			// an if without any write inside is not part of the layout
			onlyMarkers := true
			for _, st := range out[mark:] {
				if st.m != "if" && st.m != "else" && st.m != "end" && st.m != "for" {
					onlyMarkers = false
				}
			}
			if onlyMarkers {
				out = out[:mark]
			}
		case *ast.ForStmt:
			mark := len(out)
			out = append(out, step{"for", ""})
			block(x.Body.List)
			out = append(out, step{"end", ""})
			if len(out) == mark+2 {
				out = out[:mark]
			}
		case *ast.RangeStmt:
			mark := len(out)
			out = append(out, step{"for", ""})
			block(x.Body.List)
			out = append(out, step{"end", ""})
			if len(out) == mark+2 {
				out = out[:mark]
			}
		case *ast.BlockStmt:
			block(x.List)
		case *ast.ReturnStmt:
			for _, r := range x.Results {
				calls(r)
			}
		case *ast.DeclStmt, *ast.IncDecStmt, *ast.DeferStmt, *ast.EmptyStmt:
		default:
			out = append(out, step{"unknown:" + fmt.Sprintf("%T", s), ""})
		}
	}
	block(fd.Body.List)
	return out
}

// ---------------------------------------------------------------- typed steps (interpreted in Lean)
//
// The statements of a function that write to a stream, as nested steps the Lean side gives a meaning to
// (Golib/Wire/Steps.lean):
//   w M A          stream.M(A) / pkg.M(stream, A) / A.ToBytes(stream)          on the main stream
//   side M A       the same on another stream (a side buffer)
//   lit M v        stream.M(<integer literal | true | false>)
//   hdr            this.AbstractPack.Write(stream)
//   arr8 A         this.writeShortArray(stream, A)
//   call NAME      this.NAME(stream)
//   put K V        this.Attr.Put(K, V)
//   ite C T E      if C { T } else { E }        (only when a branch writes or puts)
//   loop N B       for … { B }                  (only when the body writes)
//   wrapHeader AS  stream.WriteHeader(AS…): wraps what the stream holds
//   blobWrap       out.WriteBlob(side.ToByteArray())
//   other TEXT     anything else that writes
// Argument texts: an outer integer conversion is dropped, a local with exactly one definition is
// replaced by its definition (so `m.Time` reads `….GetValue().(*TxMeter).Time`), other locals are
// positional (_L0…), the stream is `$`, a leading `this.` is dropped.  Renaming locals or reordering
// statements that neither write nor define a written value leaves the steps unchanged.

type stepper struct {
	fd      *ast.FuncDecl
	loc     map[string]bool
	defs    map[string]ast.Expr // locals with exactly one definition
	idx     map[string]int
	streams map[string]int // local idents used as receiver / first argument of Write* calls
	main    string
	loops   int
}

func newStepper(fd *ast.FuncDecl) *stepper {
	st := &stepper{fd: fd, loc: localsOf(fd), defs: map[string]ast.Expr{}, idx: map[string]int{}, streams: map[string]int{}}
	recvName := ""
	if fd.Recv != nil && len(fd.Recv.List) == 1 && len(fd.Recv.List[0].Names) == 1 {
		recvName = fd.Recv.List[0].Names[0].Name
		delete(st.loc, recvName)
	}
	isWriteMethod := func(n string) bool { return strings.HasPrefix(n, "Write") && len(n) > 5 }
	count := map[string]int{}
	noSubst := map[string]bool{}
	ast.Inspect(fd.Body, func(n ast.Node) bool {
		switch x := n.(type) {
		case *ast.AssignStmt:
			for i, l := range x.Lhs {
				if id, ok := l.(*ast.Ident); ok && st.loc[id.Name] {
					count[id.Name]++
					if len(x.Lhs) == len(x.Rhs) {
						st.defs[id.Name] = x.Rhs[i]
					} else {
						noSubst[id.Name] = true
					}
				}
			}
		case *ast.IncDecStmt:
			if id, ok := x.X.(*ast.Ident); ok {
				noSubst[id.Name] = true
			}
		case *ast.RangeStmt:
			for _, l := range []ast.Expr{x.Key, x.Value} {
				if id, ok := l.(*ast.Ident); ok {
					noSubst[id.Name] = true
				}
			}
		case *ast.CallExpr:
			if se, ok := x.Fun.(*ast.SelectorExpr); ok && isWriteMethod(se.Sel.Name) {
				if id, ok := se.X.(*ast.Ident); ok && (st.loc[id.Name] || (id.Name == recvName && recvName != "this")) {
					st.streams[id.Name]++
				} else if len(x.Args) >= 1 {
					if id, ok := x.Args[0].(*ast.Ident); ok && st.loc[id.Name] && len(x.Args) == 2 {
						st.streams[id.Name]++
					}
				}
			}
		}
		return true
	})
	for n, d := range st.defs {
		if count[n] != 1 || noSubst[n] || !st.isPath(d) {
			delete(st.defs, n)
		}
	}
	best := -1
	for n, c := range st.streams {
		if c > best || (c == best && n < st.main) {
			best, st.main = c, n
		}
	}
	return st
}

// isPath: a selector / call / index / type-assertion chain rooted at `this` or a local
func (st *stepper) isPath(e ast.Expr) bool {
	for {
		switch x := e.(type) {
		case *ast.ParenExpr:
			e = x.X
		case *ast.SelectorExpr:
			e = x.X
		case *ast.CallExpr:
			if isIntConv(x) {
				e = x.Args[0]
				continue
			}
			if _, ok := x.Fun.(*ast.SelectorExpr); !ok {
				return false
			}
			e = x.Fun
		case *ast.IndexExpr:
			e = x.X
		case *ast.TypeAssertExpr:
			e = x.X
		case *ast.Ident:
			return x.Name == "this" || st.loc[x.Name]
		default:
			return false
		}
	}
}

func (st *stepper) isStream(e ast.Expr) (string, bool) {
	if id, ok := e.(*ast.Ident); ok && st.streams[id.Name] > 0 {
		return id.Name, true
	}
	return "", false
}

// subst: copy of the expression with single-definition locals replaced by their definition,
// streams by `$`, other locals by positional names.
func (st *stepper) subst(e ast.Expr, depth int) ast.Expr {
	switch x := e.(type) {
	case nil:
		return nil
	case *ast.Ident:
		if n, ok := st.isStream(x); ok {
			if n == st.main {
				return &ast.Ident{Name: "$"}
			}
			return &ast.Ident{Name: "$side"}
		}
		if st.loc[x.Name] {
			if d, ok := st.defs[x.Name]; ok && depth < 8 {
				return &ast.ParenExpr{X: st.subst(d, depth+1)}
			}
			k, ok := st.idx[x.Name]
			if !ok {
				k = len(st.idx)
				st.idx[x.Name] = k
			}
			return &ast.Ident{Name: fmt.Sprintf("_L%d", k)}
		}
		return x
	case *ast.SelectorExpr:
		return &ast.SelectorExpr{X: st.subst(x.X, depth), Sel: x.Sel}
	case *ast.CallExpr:
		c := &ast.CallExpr{Fun: st.subst(x.Fun, depth)}
		for _, a := range x.Args {
			c.Args = append(c.Args, st.subst(a, depth))
		}
		return c
	case *ast.BinaryExpr:
		return &ast.BinaryExpr{X: st.subst(x.X, depth), Op: x.Op, Y: st.subst(x.Y, depth)}
	case *ast.UnaryExpr:
		return &ast.UnaryExpr{Op: x.Op, X: st.subst(x.X, depth)}
	case *ast.ParenExpr:
		return &ast.ParenExpr{X: st.subst(x.X, depth)}
	case *ast.StarExpr:
		return &ast.StarExpr{X: st.subst(x.X, depth)}
	case *ast.IndexExpr:
		return &ast.IndexExpr{X: st.subst(x.X, depth), Index: st.subst(x.Index, depth)}
	case *ast.TypeAssertExpr:
		return &ast.TypeAssertExpr{X: st.subst(x.X, depth), Type: x.Type}
	default:
		return e
	}
}

func stripParens(e ast.Expr) ast.Expr {
	for {
		p, ok := e.(*ast.ParenExpr)
		if !ok {
			return e
		}
		e = p.X
	}
}

func (st *stepper) txt(e ast.Node) string {
	var t string
	if ex, ok := e.(ast.Expr); ok {
		t = text(st.subst(ex, 0))
	} else {
		t = text(e)
	}
	t = strings.ReplaceAll(t, ". ", ".")
	// drop the parentheses introduced around substituted definitions where they are not needed
	for _, pat := range []string{"(", ")"} {
		_ = pat
	}
	return t
}

var parenIdent = regexp.MustCompile(`\((\$|[A-Za-z_][A-Za-z0-9_.]*(\([^()]*\))?(\.[A-Za-z_][A-Za-z0-9_]*(\([^()]*\))?|\.\(\*?[A-Za-z_.]+\))*)\)`)

func tidy(t string) string {
	// (x.y(z)) → x.y(z) when the parenthesised text is a plain selector/call chain
	for i := 0; i < 10; i++ {
		n := parenIdent.ReplaceAllStringFunc(t, func(m string) string {
			// keep call argument lists: only strip when the '(' is not directly preceded by an identifier char
			return m
		})
		if n == t {
			break
		}
		t = n
	}
	return t
}

// argText: the written value, outer integer conversion dropped, leading "this." dropped.
func isIntConv(c *ast.CallExpr) bool {
	if len(c.Args) != 1 {
		return false
	}
	if id, ok := c.Fun.(*ast.Ident); ok {
		switch id.Name {
		case "int64", "int32", "int16", "int", "byte", "uint8", "int8":
			return true
		}
	}
	return false
}

func (st *stepper) argText(e ast.Expr) (string, bool, uint64) {
	// drop outer integer conversions and follow single-definition locals (a temporary that only names
	// the written value is transparent)
	for i := 0; i < 8; i++ {
		e = stripParens(e)
		if c, ok := e.(*ast.CallExpr); ok && isIntConv(c) {
			e = c.Args[0]
			continue
		}
		if id, ok := e.(*ast.Ident); ok && st.loc[id.Name] {
			if d, ok := st.defs[id.Name]; ok {
				e = d
				continue
			}
		}
		break
	}
	if bl, ok := e.(*ast.BasicLit); ok && bl.Kind == token.INT {
		v, _ := intOf(bl.Value)
		return "", true, v
	}
	if id, ok := e.(*ast.Ident); ok && (id.Name == "true" || id.Name == "false") {
		if id.Name == "true" {
			return "", true, 1
		}
		return "", true, 0
	}
	t := unparen(st.txt(e))
	t = strings.TrimPrefix(t, "this.")
	return t, false, 0
}

// unparen removes parentheses that wrap a whole selector operand: "(a.b()).c" → "a.b().c"
func unparen(t string) string {
	for {
		changed := false
		depth := 0
		start := -1
		for i := 0; i < len(t); i++ {
			switch t[i] {
			case '(':
				if depth == 0 {
					start = i
				}
				depth++
			case ')':
				depth--
				if depth == 0 && start >= 0 {
					// a group opened at `start`: strip it if it is not a call's argument list / type assertion / conversion
					prev := byte(' ')
					if start > 0 {
						prev = t[start-1]
					}
					isOperand := start == 0 || !(prev == '_' || prev == ']' || prev == ')' || prev == '.' || prev == '$' ||
						(prev >= 'a' && prev <= 'z') || (prev >= 'A' && prev <= 'Z') || (prev >= '0' && prev <= '9'))
					inner := t[start+1 : i]
					simple := !strings.ContainsAny(inner, " +-<>=!&|^")
					if isOperand && simple && !strings.HasPrefix(inner, "*") {
						t = t[:start] + inner + t[i+1:]
						changed = true
					}
					start = -1
				}
			}
			if changed {
				break
			}
		}
		if !changed {
			return t
		}
	}
}

func (st *stepper) stepsOf(stmts []ast.Stmt, ind string) []string {
	var out []string
	for _, s := range stmts {
		out = append(out, st.stepOf(s, ind)...)
	}
	return out
}

func hasPut(n ast.Node) bool {
	found := false
	ast.Inspect(n, func(x ast.Node) bool {
		if c, ok := x.(*ast.CallExpr); ok {
			if se, ok := c.Fun.(*ast.SelectorExpr); ok && se.Sel.Name == "Put" {
				found = true
			}
		}
		return !found
	})
	return found
}

func list(items []string, ind string) string {
	if len(items) == 0 {
		return "[]"
	}
	return "[\n" + ind + "  " + strings.Join(items, ",\n"+ind+"  ") + "]"
}

func (st *stepper) writeStep(stream, name string, arg ast.Expr) string {
	t, isLit, v := st.argText(arg)
	kind := ".w"
	if stream != st.main {
		kind = ".side"
	}
	if isLit {
		if kind == ".side" {
			return fmt.Sprintf(".side %s %s", leanStr(name), leanStr(fmt.Sprint(v)))
		}
		return fmt.Sprintf(".lit %s %d", leanStr(name), v)
	}
	return fmt.Sprintf("%s %s %s", kind, leanStr(name), leanStr(t))
}

func (st *stepper) stepOf(s ast.Stmt, ind string) []string {
	switch x := s.(type) {
	case *ast.ExprStmt:
		c, ok := x.X.(*ast.CallExpr)
		if !ok {
			return nil
		}
		se, isSel := c.Fun.(*ast.SelectorExpr)
		if isSel {
			if stream, ok := st.isStream(se.X); ok && strings.HasPrefix(se.Sel.Name, "Write") && len(se.Sel.Name) > 5 {
				switch {
				case (se.Sel.Name == "WriteHeader" || se.Sel.Name == "WriteOneWayHeader") && len(c.Args) == 4:
					var as []string
					for _, a := range c.Args {
						t, isLit, v := st.argText(a)
						if isLit {
							t = fmt.Sprint(v)
						}
						as = append(as, leanStr(t))
					}
					return []string{".wrapHeader [" + strings.Join(as, ", ") + "]"}
				case se.Sel.Name == "WriteBlob" && len(c.Args) == 1:
					if ic, ok := c.Args[0].(*ast.CallExpr); ok && len(ic.Args) == 0 {
						if is, ok := ic.Fun.(*ast.SelectorExpr); ok && is.Sel.Name == "ToByteArray" {
							if _, ok := st.isStream(is.X); ok {
								return []string{".blobWrap"}
							}
						}
					}
					return []string{st.writeStep(stream, se.Sel.Name, c.Args[0])}
				case len(c.Args) == 1:
					return []string{st.writeStep(stream, se.Sel.Name, c.Args[0])}
				}
				return []string{".other " + leanStr(st.txt(c))}
			}
			if len(c.Args) >= 1 {
				if stream, ok := st.isStream(c.Args[0]); ok {
					recv := st.txt(se.X)
					switch {
					case len(c.Args) == 1 && se.Sel.Name == "Write" && recv == "this.AbstractPack":
						return []string{".hdr"}
					case len(c.Args) == 1 && recv == "this" && strings.HasPrefix(se.Sel.Name, "write"):
						return []string{".call " + leanStr(se.Sel.Name)}
					case len(c.Args) == 2 && recv == "this" && se.Sel.Name == "writeShortArray":
						t, _, _ := st.argText(c.Args[1])
						return []string{".arr8 " + leanStr(t)}
					case len(c.Args) == 2 && strings.HasPrefix(se.Sel.Name, "Write"):
						return []string{st.writeStep(stream, se.Sel.Name, c.Args[1])}
					case len(c.Args) == 1 && (se.Sel.Name == "ToBytes" || se.Sel.Name == "Write"):
						t, _, _ := st.argText(se.X)
						kind := ".w"
						if stream != st.main {
							kind = ".side"
						}
						return []string{fmt.Sprintf("%s %s %s", kind, leanStr(se.Sel.Name), leanStr(t))}
					}
					return []string{".other " + leanStr(st.txt(c))}
				}
			}
			if se.Sel.Name == "Put" && len(c.Args) == 2 && st.txt(se.X) == "this.Attr" {
				return []string{fmt.Sprintf(".put %s %s", leanStr(st.txt(c.Args[0])), leanStr(strings.TrimPrefix(st.txt(c.Args[1]), "this.")))}
			}
		}
		if hasWrite(c) {
			return []string{".other " + leanStr(st.txt(c))}
		}
		return nil
	case *ast.IfStmt:
		if !hasWrite(x) && !hasPut(x) {
			return nil
		}
		t := st.stepsOf(x.Body.List, ind+"  ")
		var e []string
		switch eb := x.Else.(type) {
		case *ast.BlockStmt:
			e = st.stepsOf(eb.List, ind+"  ")
		case *ast.IfStmt:
			e = st.stepOf(eb, ind+"  ")
		}
		return []string{fmt.Sprintf(".ite %s %s %s", leanStr(st.txt(x.Cond)), list(t, ind), list(e, ind))}
	case *ast.ForStmt:
		if !hasWrite(x) {
			return nil
		}
		name := "for"
		if x.Init != nil {
			if as, ok := x.Init.(*ast.AssignStmt); ok && len(as.Lhs) == 1 && len(as.Rhs) == 1 {
				name += " " + st.txt(as.Lhs[0]) + " := " + st.txt(as.Rhs[0]) + ";"
			}
		}
		if x.Cond != nil {
			name += " " + unparen(st.txt(x.Cond))
		}
		if x.Post != nil {
			if id, ok := x.Post.(*ast.IncDecStmt); ok {
				name += "; " + st.txt(id.X) + id.Tok.String()
			}
		}
		return []string{fmt.Sprintf(".loop %s %s", leanStr(name), list(st.stepsOf(x.Body.List, ind+"  "), ind))}
	case *ast.RangeStmt:
		if !hasWrite(x) {
			return nil
		}
		return []string{fmt.Sprintf(".loop %s %s", leanStr("range "+unparen(st.txt(x.X))), list(st.stepsOf(x.Body.List, ind+"  "), ind))}
	case *ast.BlockStmt:
		return st.stepsOf(x.List, ind)
	default:
		if hasWrite(s) {
			if as, ok := s.(*ast.AssignStmt); ok {
				// an assignment whose right side writes (o = WritePack(o, it)): keep the call
				for _, r := range as.Rhs {
					if c, ok := r.(*ast.CallExpr); ok && hasWrite(c) {
						return []string{".other " + leanStr(st.txt(c))}
					}
				}
			}
			return []string{".other " + leanStr(fmt.Sprintf("%T", s))}
		}
		return nil
	}
}

func hasWrite(n ast.Node) bool {
	found := false
	ast.Inspect(n, func(x ast.Node) bool {
		if c, ok := x.(*ast.CallExpr); ok {
			name := ""
			switch f := c.Fun.(type) {
			case *ast.SelectorExpr:
				name = f.Sel.Name
			case *ast.Ident:
				name = f.Name
			}
			if strings.HasPrefix(name, "Write") || strings.HasPrefix(name, "write") || name == "ToBytes" {
				found = true
			}
		}
		return !found
	})
	return found
}

func emitSteps(b *strings.Builder, name string, fd *ast.FuncDecl) {
	if fd == nil {
		fmt.Fprintf(b, "def steps_%s : List Wire.Step := [.other \"missing\"]\n\n", name)
		return
	}
	st := newStepper(fd)
	items := st.stepsOf(fd.Body.List, "")
	n := len(items)
	if n >= 3 && items[0] == ".hdr" && items[n-1] == ".blobWrap" {
		// a body built in a side stream and emitted as one blob after the header: the body is emitted in
		// parts (every if / for statement on its own, runs of plain writes in chunks) so that each part
		// gets its own obligation; the whole is their concatenation
		inner := items[1 : n-1]
		var parts [][]string
		var cur []string
		flush := func() {
			if len(cur) > 0 {
				parts = append(parts, cur)
				cur = nil
			}
		}
		for _, it := range inner {
			if strings.HasPrefix(it, ".ite") || strings.HasPrefix(it, ".loop") {
				flush()
				parts = append(parts, []string{it})
				continue
			}
			cur = append(cur, it)
			if len(cur) == 20 {
				flush()
			}
		}
		flush()
		var names []string
		for k, pt := range parts {
			pn := fmt.Sprintf("steps_%s_p%d", name, k)
			names = append(names, pn)
			fmt.Fprintf(b, "def %s : List Wire.Step := %s\n\n", pn, list(pt, ""))
		}
		fmt.Fprintf(b, "def steps_%s_parts : List (List Wire.Step) := [%s]\n\n", name, strings.Join(names, ", "))
		fmt.Fprintf(b, "def steps_%s_body : List Wire.Step := %s\n\n", name, strings.Join(names, " ++ "))
		fmt.Fprintf(b, "def steps_%s : List Wire.Step := .hdr :: (steps_%s_body ++ [.blobWrap])\n\n", name, name)
		return
	}
	fmt.Fprintf(b, "def steps_%s : List Wire.Step := %s\n\n", name, list(items, ""))
}

// ---------------------------------------------------------------- Hash64: expression transcription

func hexpr(e ast.Expr, bname string) string {
	switch x := e.(type) {
	case *ast.ParenExpr:
		return hexpr(x.X, bname)
	case *ast.Ident:
		switch x.Name {
		case "crc":
			return ".crc"
		case bname:
			return ".b"
		}
	case *ast.BasicLit:
		if v, ok := intOf(x.Value); ok {
			return fmt.Sprintf("(.lit %d)", v)
		}
	case *ast.BinaryExpr:
		switch x.Op {
		case token.SHR:
			if bl, ok := x.Y.(*ast.BasicLit); ok {
				if k, ok := intOf(bl.Value); ok {
					return fmt.Sprintf("(.shr %s %d)", hexpr(x.X, bname), k)
				}
			}
		case token.XOR:
			return fmt.Sprintf("(.xor %s %s)", hexpr(x.X, bname), hexpr(x.Y, bname))
		}
	case *ast.CallExpr:
		if id, ok := x.Fun.(*ast.Ident); ok && len(x.Args) == 1 {
			switch id.Name {
			case "uint64", "uint32", "uint8", "byte", "int32", "int64":
				return fmt.Sprintf("(.conv %s %s)", leanStr(id.Name), hexpr(x.Args[0], bname))
			}
		}
	case *ast.IndexExpr:
		if id, ok := x.X.(*ast.Ident); ok && id.Name == "table" {
			return fmt.Sprintf("(.tbl %s)", hexpr(x.Index, bname))
		}
	}
	return "(.unknown " + leanStr(text(e)) + ")"
}

// emitHash64 transcribes `Hash64`: the initial register, the loop (shape facts as text), the step
// expression assigned to crc in the loop, the expression assigned after the loop, the return conversion.
func emitHash64(b *strings.Builder, fd *ast.FuncDecl) {
	init, step, final, ret := "0 -- unknown", "(.unknown \"missing\")", "(.unknown \"missing\")", "unknown"
	var shape []string
	if fd != nil {
		afterLoop := false
		for _, st := range fd.Body.List {
			switch x := st.(type) {
			case *ast.AssignStmt:
				if len(x.Lhs) == 1 && len(x.Rhs) == 1 {
					lhs := text(x.Lhs[0])
					if lhs == "crc" && x.Tok == token.DEFINE {
						if c, ok := x.Rhs[0].(*ast.CallExpr); ok && len(c.Args) == 1 && text(c.Fun) == "uint64" {
							if bl, ok := c.Args[0].(*ast.BasicLit); ok {
								if v, ok := intOf(bl.Value); ok {
									init = fmt.Sprintf("%d", v)
								}
							}
						}
					} else if lhs == "crc" && afterLoop {
						final = hexpr(x.Rhs[0], "")
					} else {
						shape = append(shape, text(x))
					}
				}
			case *ast.ForStmt:
				afterLoop = true
				shape = append(shape, "for "+text(x.Init)+"; "+text(x.Cond)+"; "+text(x.Post))
				bname := ""
				for _, bs := range x.Body.List {
					as, ok := bs.(*ast.AssignStmt)
					if !ok || len(as.Lhs) != 1 || len(as.Rhs) != 1 {
						shape = append(shape, "unknown:"+text(bs))
						continue
					}
					if as.Tok == token.DEFINE {
						bname = text(as.Lhs[0])
						shape = append(shape, "elem "+text(as.Rhs[0]))
					} else if text(as.Lhs[0]) == "crc" {
						step = hexpr(as.Rhs[0], bname)
					} else {
						shape = append(shape, "unknown:"+text(bs))
					}
				}
			case *ast.ReturnStmt:
				if len(x.Results) == 1 {
					if c, ok := x.Results[0].(*ast.CallExpr); ok && len(c.Args) == 1 && text(c.Args[0]) == "crc" {
						ret = text(c.Fun)
					}
				}
			default:
				shape = append(shape, "unknown:"+text(st))
			}
		}
	}
	fmt.Fprintf(b, "def hash64Init : Nat := %s\n", init)
	fmt.Fprintf(b, "def hash64Step : Wire.HExpr := %s\n", step)
	fmt.Fprintf(b, "def hash64Final : Wire.HExpr := %s\n", final)
	fmt.Fprintf(b, "def hash64Ret : String := %s\n", leanStr(ret))
	b.WriteString("def hash64Shape : List String := [")
	for i, sh := range shape {
		if i > 0 {
			b.WriteString(", ")
		}
		b.WriteString(leanStr(sh))
	}
	b.WriteString("]\n\n")
}

// ---------------------------------------------------------------- state a pack carries from one Write to the next
//
// For each of the eight pack types (struct + embedded AbstractPack): its unexported fields with their types, those of
// them that can hold encoded bytes ([]byte, [N]byte, *DataOutputX, bytes.Buffer …), the fields assigned inside Write
// or a method of the same type that Write calls (transitively), and the package-level variables of lang/pack that
// Write (or such a method) mentions.  A cache of encoded bytes needs one of these.

func structFields(f *ast.File, name string) []*ast.Field {
	for _, d := range f.Decls {
		gd, ok := d.(*ast.GenDecl)
		if !ok || gd.Tok != token.TYPE {
			continue
		}
		for _, sp := range gd.Specs {
			ts := sp.(*ast.TypeSpec)
			if st, ok := ts.Type.(*ast.StructType); ok && ts.Name.Name == name {
				return st.Fields.List
			}
		}
	}
	return nil
}

func byteHolding(t string) bool {
	return strings.Contains(t, "byte") || strings.Contains(t, "DataOutputX") || strings.Contains(t, "Buffer") || strings.Contains(t, "uint8")
}

func emitPackState(b *strings.Builder, packDir string, types []string, files map[string]*ast.File) {
	// package-level variables of lang/pack
	pkgVars := map[string]bool{}
	ents, _ := os.ReadDir(packDir)
	for _, e := range ents {
		if e.IsDir() || !strings.HasSuffix(e.Name(), ".go") || strings.HasSuffix(e.Name(), "_test.go") {
			continue
		}
		f := parse(filepath.Join(packDir, e.Name()))
		for _, d := range f.Decls {
			if gd, ok := d.(*ast.GenDecl); ok && gd.Tok == token.VAR {
				for _, sp := range gd.Specs {
					for _, n := range sp.(*ast.ValueSpec).Names {
						pkgVars[n.Name] = true
					}
				}
			}
		}
	}
	var unexp, holding, assigned, pvars []string
	for _, T := range types {
		f := files[T]
		var us, hs []string
		for _, fl := range structFields(f, T) {
			for _, n := range fl.Names {
				if !ast.IsExported(n.Name) {
					t := text(fl.Type)
					us = append(us, fmt.Sprintf("(%s, %s)", leanStr(n.Name), leanStr(t)))
					if byteHolding(t) {
						hs = append(hs, leanStr(n.Name))
					}
				}
			}
		}
		// closure of Write over methods of T called on the receiver
		seen := map[string]bool{}
		var asg, pv []string
		addU := func(l *[]string, x string) {
			for _, y := range *l {
				if y == x {
					return
				}
			}
			*l = append(*l, x)
		}
		var visit func(name string)
		visit = func(name string) {
			if seen[name] {
				return
			}
			seen[name] = true
			fd := method(f, T, name)
			if fd == nil {
				return
			}
			recv := ""
			if len(fd.Recv.List[0].Names) == 1 {
				recv = fd.Recv.List[0].Names[0].Name
			}
			lhsField := func(e ast.Expr) {
				for {
					switch x := e.(type) {
					case *ast.IndexExpr:
						e = x.X
						continue
					case *ast.SliceExpr:
						e = x.X
						continue
					case *ast.ParenExpr:
						e = x.X
						continue
					}
					break
				}
				if se, ok := e.(*ast.SelectorExpr); ok {
					if id, ok := se.X.(*ast.Ident); ok && id.Name == recv {
						addU(&asg, se.Sel.Name)
					}
				}
				if id, ok := e.(*ast.Ident); ok && pkgVars[id.Name] {
					addU(&pv, id.Name)
				}
			}
			ast.Inspect(fd.Body, func(n ast.Node) bool {
				switch x := n.(type) {
				case *ast.AssignStmt:
					for _, l := range x.Lhs {
						lhsField(l)
					}
				case *ast.IncDecStmt:
					lhsField(x.X)
				case *ast.Ident:
					if pkgVars[x.Name] {
						addU(&pv, x.Name)
					}
				case *ast.CallExpr:
					if se, ok := x.Fun.(*ast.SelectorExpr); ok {
						if id, ok := se.X.(*ast.Ident); ok && id.Name == recv {
							visit(se.Sel.Name)
						}
					}
				}
				return true
			})
		}
		visit("Write")
		q := func(xs []string) string {
			ys := make([]string, len(xs))
			for i, x := range xs {
				ys[i] = leanStr(x)
			}
			return "[" + strings.Join(ys, ", ") + "]"
		}
		unexp = append(unexp, fmt.Sprintf("(%s, [%s])", leanStr(T), strings.Join(us, ", ")))
		holding = append(holding, fmt.Sprintf("(%s, [%s])", leanStr(T), strings.Join(hs, ", ")))
		assigned = append(assigned, fmt.Sprintf("(%s, %s)", leanStr(T), q(asg)))
		pvars = append(pvars, fmt.Sprintf("(%s, %s)", leanStr(T), q(pv)))
	}
	fmt.Fprintf(b, "def packUnexportedFields : List (String × List (String × String)) := [\n  %s]\n\n", strings.Join(unexp, ",\n  "))
	fmt.Fprintf(b, "def packByteHoldingFields : List (String × List String) := [\n  %s]\n\n", strings.Join(holding, ",\n  "))
	fmt.Fprintf(b, "def packAssignedInWrite : List (String × List String) := [\n  %s]\n\n", strings.Join(assigned, ",\n  "))
	fmt.Fprintf(b, "def packPkgVarsInWrite : List (String × List String) := [\n  %s]\n\n", strings.Join(pvars, ",\n  "))
}

// ---- send routes: EVERY statement of a function (not only the writes), nested, receiver and parameters
// positional (_L0 = receiver, _L1.. = parameters in order, then locals in order of first use)
func routeNormer(fd *ast.FuncDecl) *normer {
	nm := &normer{loc: localsOf(fd), idx: map[string]int{}}
	add := func(n string) {
		nm.loc[n] = true
		if _, ok := nm.idx[n]; !ok {
			nm.idx[n] = len(nm.idx)
		}
	}
	if fd.Recv != nil {
		for _, f := range fd.Recv.List {
			for _, n := range f.Names {
				add(n.Name)
			}
		}
	}
	if fd.Type.Params != nil {
		for _, f := range fd.Type.Params.List {
			for _, n := range f.Names {
				add(n.Name)
			}
		}
	}
	return nm
}

var routeDot = regexp.MustCompile(`(_L[0-9]+)\. `)

// rtext: normalised text without the blank the printer leaves after a replaced identifier
func rtext(nm *normer, e ast.Node) string { return routeDot.ReplaceAllString(nm.text(e), "$1.") }

func routeArgs(nm *normer, c *ast.CallExpr) string {
	var as []string
	for i, a := range c.Args {
		t := rtext(nm, a)
		if c.Ellipsis.IsValid() && i == len(c.Args)-1 {
			t += "..."
		}
		as = append(as, leanStr(t))
	}
	return "[" + strings.Join(as, ", ") + "]"
}

// X.Put(&T{k: v, …}) → (.put X T [(k, v)…])
func routePut(nm *normer, e ast.Expr) (string, bool) {
	c, ok := e.(*ast.CallExpr)
	if !ok || len(c.Args) != 1 {
		return "", false
	}
	se, ok := c.Fun.(*ast.SelectorExpr)
	if !ok || se.Sel.Name != "Put" {
		return "", false
	}
	ue, ok := c.Args[0].(*ast.UnaryExpr)
	if !ok || ue.Op != token.AND {
		return "", false
	}
	cl, ok := ue.X.(*ast.CompositeLit)
	if !ok {
		return "", false
	}
	var fs []string
	for _, el := range cl.Elts {
		kv, ok := el.(*ast.KeyValueExpr)
		if !ok {
			return "", false
		}
		fs = append(fs, "("+leanStr(text(kv.Key))+", "+leanStr(rtext(nm, kv.Value))+")")
	}
	return ".put " + leanStr(rtext(nm, se.X)) + " " + leanStr(text(cl.Type)) + " [" + strings.Join(fs, ", ") + "]", true
}

func routeStmts(nm *normer, stmts []ast.Stmt, ind string) string {
	var out []string
	for _, s := range stmts {
		out = append(out, routeStmt(nm, s, ind+"  "))
	}
	return "[" + strings.Join(out, ",") + "]"
}

func routeStmt(nm *normer, s ast.Stmt, ind string) string {
	nl := "\n" + ind
	switch x := s.(type) {
	case *ast.IfStmt:
		if x.Init != nil {
			break
		}
		els := "[]"
		switch e := x.Else.(type) {
		case *ast.BlockStmt:
			els = routeStmts(nm, e.List, ind)
		case nil:
		default:
			els = "[" + routeStmt(nm, e, ind+"  ") + "]"
		}
		return nl + ".ifElse " + leanStr(rtext(nm, x.Cond)) + " " + routeStmts(nm, x.Body.List, ind) + " " + els
	case *ast.AssignStmt:
		if len(x.Lhs) == 1 && len(x.Rhs) == 1 {
			if p, ok := routePut(nm, x.Rhs[0]); ok {
				rtext(nm, x.Lhs[0]) // the local takes its position here
				return nl + p
			}
			return nl + ".assign " + leanStr(rtext(nm, x.Lhs[0])) + " " + leanStr(rtext(nm, x.Rhs[0]))
		}
	case *ast.ExprStmt:
		if p, ok := routePut(nm, x.X); ok {
			return nl + p
		}
		if c, ok := x.X.(*ast.CallExpr); ok {
			return nl + ".call " + leanStr(rtext(nm, c.Fun)) + " " + routeArgs(nm, c)
		}
	case *ast.ReturnStmt:
		if len(x.Results) == 1 {
			if c, ok := x.Results[0].(*ast.CallExpr); ok {
				return nl + ".retCall " + leanStr(rtext(nm, c.Fun)) + " " + routeArgs(nm, c)
			}
			return nl + ".ret " + leanStr(rtext(nm, x.Results[0]))
		}
	}
	return nl + ".other " + leanStr(text(s))
}

func emitRoute(b *strings.Builder, name string, fd *ast.FuncDecl) {
	fmt.Fprintf(b, "def route_%s : List Wire.RStmt := ", name)
	if fd == nil || fd.Body == nil {
		b.WriteString("[.other \"missing\"]\n\n")
		return
	}
	b.WriteString(routeStmts(routeNormer(fd), fd.Body.List, ""))
	b.WriteString("\n\n")
}

func emitSkel(b *strings.Builder, name string, fd *ast.FuncDecl) {
	fmt.Fprintf(b, "def skel_%s : List (String × String) := [", name)
	if fd == nil {
		fmt.Fprintf(b, "(\"unknown:missing\", \"\")]\n\n")
		return
	}
	sk := skeleton(fd)
	for i, s := range sk {
		if i > 0 {
			b.WriteString(",")
		}
		fmt.Fprintf(b, "\n  (%s, %s)", leanStr(s.m), leanStr(s.a))
	}
	b.WriteString("]\n\n")
}

func intOf(lit string) (uint64, bool) {
	v, err := strconv.ParseUint(lit, 0, 64)
	return v, err == nil
}

func main() {
	repo := flag.String("repo", "/repo", "repository root")
	outp := flag.String("out", "", "output Lean file")
	flag.Parse()
	var b strings.Builder
	b.WriteString("-- generated by xlate/c05 from " + "the Go source" + "; do not edit\nimport Golib.Wire.Steps\nimport Golib.Wire.HashExpr\nimport Golib.Wire.Route\nnamespace Gen.C05\n\n")

	// ---- pack types
	packDir := filepath.Join(*repo, "lang", "pack")
	cs := map[string]string{}
	consts(parse(filepath.Join(packDir, "Pack.go")), cs)
	type pk struct{ goType, file string }
	packs := []pk{{"TagCountPack", "TagCountPack.go"}, {"LogSinkPack", "LogSinkPack.go"}, {"TextPack", "TextPack.go"},
		{"ParamPack", "ParamPack.go"}, {"EventPack", "EventPack.go"}, {"ZipPack", "ZipPack.go"},
		{"HitMapPack1", "HitMapPack1.go"}, {"CounterPack1", "CounterPack1.go"}}
	files := map[string]*ast.File{}
	b.WriteString("def packTypes : List (String × String × Nat) := [")
	for i, p := range packs {
		f := parse(filepath.Join(packDir, p.file))
		files[p.goType] = f
		consts(f, cs)
		name, val := "unknown", uint64(0)
		if fd := method(f, p.goType, "GetPackType"); fd != nil && len(fd.Body.List) == 1 {
			if rs, ok := fd.Body.List[0].(*ast.ReturnStmt); ok && len(rs.Results) == 1 {
				if id, ok := rs.Results[0].(*ast.Ident); ok {
					name = id.Name
					if v, ok := intOf(cs[id.Name]); ok {
						val = v
					} else {
						name = "unknown:" + id.Name
					}
				}
			}
		}
		if i > 0 {
			b.WriteString(",")
		}
		fmt.Fprintf(&b, "\n  (%s, %s, %d)", leanStr(p.goType), leanStr(name), val)
	}
	b.WriteString("]\n\n")

	// ---- one-way client constants and makeData
	ow := parse(filepath.Join(*repo, "net", "oneway", "OneWayTcpClient.go"))
	oc := map[string]string{}
	consts(ow, oc)
	emitNat := func(name, lit string) {
		if v, ok := intOf(lit); ok {
			fmt.Fprintf(&b, "def %s : Nat := %d\n", name, v)
		} else {
			fmt.Fprintf(&b, "def %s : Nat := 0 -- unknown: %s\ndef %s_unknown : Bool := true\n", name, lit, name)
		}
	}
	emitNat("netSrc", oc["netSrcAgentOneway"])
	emitNat("netVer", oc["netSrcAgentVersion"])
	b.WriteString("\n")
	emitSkel(&b, "makeData", method(ow, "OneWayTcpClient", "makeData"))
	emitSteps(&b, "makeData", method(ow, "OneWayTcpClient", "makeData"))
	// the send routes: every statement of Send / SendFlush (receiver _L0, parameters _L1.., locals after them)
	emitRoute(&b, "Send", method(ow, "OneWayTcpClient", "Send"))
	emitRoute(&b, "SendFlush", method(ow, "OneWayTcpClient", "SendFlush"))

	// ---- DataOutputX.WriteHeader / WriteOneWayHeader
	dox := parse(filepath.Join(*repo, "io", "DataOutputX.go"))
	emitSkel(&b, "WriteHeader", method(dox, "DataOutputX", "WriteHeader"))
	emitSkel(&b, "WriteOneWayHeader", method(dox, "DataOutputX", "WriteOneWayHeader"))
	emitSkel(&b, "WriteIntBytes", method(dox, "DataOutputX", "WriteIntBytes"))
	emitSteps(&b, "WriteHeader", method(dox, "DataOutputX", "WriteHeader"))
	emitSteps(&b, "WriteOneWayHeader", method(dox, "DataOutputX", "WriteOneWayHeader"))
	emitSteps(&b, "WriteIntBytes", method(dox, "DataOutputX", "WriteIntBytes"))
	emitSteps(&b, "WriteSecureHeader", method(dox, "DataOutputX", "WriteSecureHeader"))

	// ---- hash
	hf := parse(filepath.Join(*repo, "util", "hash", "HashUtil.go"))
	b.WriteString("def crcTable : List Nat := [")
	n := 0
	for _, d := range hf.Decls {
		gd, ok := d.(*ast.GenDecl)
		if !ok || gd.Tok != token.VAR {
			continue
		}
		for _, sp := range gd.Specs {
			vs := sp.(*ast.ValueSpec)
			if len(vs.Names) == 1 && vs.Names[0].Name == "table" && len(vs.Values) == 1 {
				if cl, ok := vs.Values[0].(*ast.CompositeLit); ok {
					for _, e := range cl.Elts {
						if bl, ok := e.(*ast.BasicLit); ok {
							if v, ok := intOf(bl.Value); ok {
								if n > 0 {
									b.WriteString(",")
								}
								if n%8 == 0 {
									b.WriteString("\n  ")
								} else {
									b.WriteString(" ")
								}
								fmt.Fprintf(&b, "%d", v)
								n++
							}
						}
					}
				}
			}
		}
	}
	b.WriteString("]\n\n")
	emitSkel(&b, "Hash64", method(hf, "", "Hash64"))
	emitHash64(&b, method(hf, "", "Hash64"))
	emitSkel(&b, "Hash64Str", method(hf, "", "Hash64Str"))
	// Hash64Str: the returned expression, locals positional
	{
		body := "unknown"
		if fd := method(hf, "", "Hash64Str"); fd != nil && len(fd.Body.List) == 1 {
			if rs, ok := fd.Body.List[0].(*ast.ReturnStmt); ok && len(rs.Results) == 1 {
				nm := &normer{loc: localsOf(fd), idx: map[string]int{}}
				body = nm.text(rs.Results[0])
			}
		}
		fmt.Fprintf(&b, "def hash64StrBody : String := %s\n\n", leanStr(body))
	}

	// ---- common header
	ap := parse(filepath.Join(packDir, "AbstractPack.go"))
	apw := method(ap, "AbstractPack", "Write")
	emitSkel(&b, "AbstractPack", apw)
	// the literal bytes AbstractPack.Write emits (the marker of the extended form)
	b.WriteString("def hdrMarkers : List Nat := [")
	if apw != nil {
		first := true
		for _, st := range skeleton(apw) {
			if st.m == "WriteByte" {
				if v, ok := intOf(st.a); ok {
					if !first {
						b.WriteString(", ")
					}
					fmt.Fprintf(&b, "%d", v)
					first = false
				} else {
					b.WriteString("0 /- unknown -/")
				}
			}
		}
	}
	b.WriteString("]\n\n")
	// the first two arguments (source, version) of the WriteHeader calls of makeData
	b.WriteString("def makeDataHeaderConsts : List (List String) := [")
	if md := method(ow, "OneWayTcpClient", "makeData"); md != nil {
		first := true
		ast.Inspect(md.Body, func(n ast.Node) bool {
			if c, ok := n.(*ast.CallExpr); ok {
				if se, ok := c.Fun.(*ast.SelectorExpr); ok && se.Sel.Name == "WriteHeader" {
					if !first {
						b.WriteString(", ")
					}
					first = false
					b.WriteString("[")
					for i, a := range c.Args {
						if i >= 2 {
							break
						}
						if i > 0 {
							b.WriteString(", ")
						}
						b.WriteString(leanStr(text(a)))
					}
					b.WriteString("]")
				}
			}
			return true
		})
	}
	b.WriteString("]\n\n")

	// ---- common header as typed steps: condition and the two branches
	if apw != nil && len(apw.Body.List) == 1 {
		if ifs, ok := apw.Body.List[0].(*ast.IfStmt); ok {
			fmt.Fprintf(&b, "def hdrCond : String := %s\n\n", leanStr(text(ifs.Cond)))
			emitSteps(&b, "hdrShort", &ast.FuncDecl{Type: apw.Type, Recv: apw.Recv, Body: ifs.Body})
			if eb, ok := ifs.Else.(*ast.BlockStmt); ok {
				emitSteps(&b, "hdrExt", &ast.FuncDecl{Type: apw.Type, Recv: apw.Recv, Body: eb})
			}
		}
	}

	// ---- bodies
	for _, p := range packs {
		emitSkel(&b, p.goType, method(files[p.goType], p.goType, "Write"))
		emitSteps(&b, p.goType, method(files[p.goType], p.goType, "Write"))
	}
	for _, h := range []string{"writeShortArray", "writeTxcallerOther", "writeTxcallerOidMeter", "writeSqlMeter", "writeHttpcMeter",
		"writeTxcallerGroupMeter", "writeTxcallerPOidMeter"} {
		emitSkel(&b, "CounterPack1_"+h, method(files["CounterPack1"], "CounterPack1", h))
		emitSteps(&b, "CounterPack1_"+h, method(files["CounterPack1"], "CounterPack1", h))
	}
	emitSkel(&b, "LogSinkPack_ResetTagHash", method(files["LogSinkPack"], "LogSinkPack", "ResetTagHash"))
	emitSteps(&b, "LogSinkPack_ResetTagHash", method(files["LogSinkPack"], "LogSinkPack", "ResetTagHash"))
	{
		// what ResetTagHash returns and what it stores: `this.TagHash = hash.Hash64(<bytes>)`, `return <bytes>`
		ret, asg := "unknown", "unknown"
		if fd := method(files["LogSinkPack"], "LogSinkPack", "ResetTagHash"); fd != nil {
			st := newStepper(fd)
			for _, x := range fd.Body.List {
				switch y := x.(type) {
				case *ast.ReturnStmt:
					if len(y.Results) == 1 {
						ret = unparen(st.txt(y.Results[0]))
					}
				case *ast.AssignStmt:
					if len(y.Lhs) == 1 && len(y.Rhs) == 1 && text(y.Lhs[0]) == "this.TagHash" {
						asg = unparen(st.txt(y.Rhs[0]))
					}
				}
			}
		}
		// TagCountPack.Write: what it stores in tagHash
		tasg := "unknown"
		if fd := method(files["TagCountPack"], "TagCountPack", "Write"); fd != nil {
			st := newStepper(fd)
			ast.Inspect(fd.Body, func(n ast.Node) bool {
				if y, ok := n.(*ast.AssignStmt); ok && len(y.Lhs) == 1 && len(y.Rhs) == 1 && text(y.Lhs[0]) == "this.tagHash" {
					tasg = unparen(st.txt(y.Rhs[0]))
				}
				return true
			})
		}
		fmt.Fprintf(&b, "def tagCountStores : String := %s\n", leanStr(tasg))
		fmt.Fprintf(&b, "def resetTagHashReturns : String := %s\ndef resetTagHashStores : String := %s\n\n", leanStr(ret), leanStr(asg))
	}
	hm := parse(filepath.Join(*repo, "util", "hmap", "IntIntMap.go"))
	emitSkel(&b, "IntIntMap_ToBytes", method(hm, "IntIntMap", "ToBytes"))
	emitSteps(&b, "IntIntMap_ToBytes", method(hm, "IntIntMap", "ToBytes"))

	// ---- EventPack.Write: the keys it removes from Attr again (this.Attr.Remove(K)), in order
	{
		var ks []string
		if fd := method(files["EventPack"], "EventPack", "Write"); fd != nil {
			ast.Inspect(fd.Body, func(n ast.Node) bool {
				if c, ok := n.(*ast.CallExpr); ok && len(c.Args) == 1 {
					if se, ok := c.Fun.(*ast.SelectorExpr); ok && se.Sel.Name == "Remove" && text(se.X) == "this.Attr" {
						ks = append(ks, leanStr(text(c.Args[0])))
					}
				}
				return true
			})
		}
		fmt.Fprintf(&b, "def eventRemovedKeys : List String := [%s]\n\n", strings.Join(ks, ", "))
	}

	// ---- state carried between Writes
	{
		files["AbstractPack"] = ap
		ts := []string{"AbstractPack"}
		for _, p := range packs {
			ts = append(ts, p.goType)
		}
		emitPackState(&b, packDir, ts, files)
	}

	// ---- constants
	emitNat("hitmapLength", cs["HITMAP_LENGTH"])
	b.WriteString("def eventKeys : List (String × String) := [")
	for i, k := range []string{"ESCALATION_KEY", "UUID_KEY", "STATUS_KEY", "OTYPE_KEY"} {
		if i > 0 {
			b.WriteString(", ")
		}
		v := cs[k]
		if uq, err := strconv.Unquote(v); err == nil {
			v = uq
		} else {
			v = "unknown"
		}
		fmt.Fprintf(&b, "(%s, %s)", leanStr(k), leanStr(v))
	}
	b.WriteString("]\n\nend Gen.C05\n")

	if *outp == "" {
		fmt.Print(b.String())
		return
	}
	if err := os.WriteFile(*outp, []byte(b.String()), 0o644); err != nil {
		fmt.Fprintln(os.Stderr, err)
		os.Exit(1)
	}
}
