module verif/xlate/x02

go 1.23
